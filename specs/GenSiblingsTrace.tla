-------------------------- MODULE GenSiblingsTrace --------------------------
(* T-layer for C10.  One record = one file written by the real generator (event `genfile`), logged by a    *)
(* harness FilePostProcessor (public extension point) in the order in which the real code produced them.   *)
(*   id        record number                                                                              *)
(*   type      full name + version of the DSDL type + hash of the DSDL source of the type and of everything it   *)
(*             transitively refers to (the type "and the types it refers to")                                   *)
(*   templates "builtin" or the description of the user template set                                            *)
(*   options   directory of the scenario (location is C07's variable), target language + language options,       *)
(*             post-processor list, generate_all flags                                                          *)
(*   digest    sha256 of the bytes of the file (or "!exc:<type>" when generation raised)                      *)
(*   lim     [on, obs, n, eb, ea, step, raw, kept]: LimitEmptyLines in force (on), its limit n, its counter   *)
(*           when the first line of this file arrived (eb) and after the file (ea); with step = 1 also the   *)
(*           run-length encoded emptiness of the raw lines (seen by a harness LinePostProcessor placed      *)
(*           first) and the number of lines kept                                                         *)
(*   uq      [obs, ub, un, exp]: unique names handed out by the singleton when the template body started     *)
(*           (ub, through a harness global called first in the template), at the end of the file (un), and   *)
(*           the number of uses in the template (exp, 0 = unknown)                                          *)
(* P decides:  sib.digest  -- two records with the same (type, templates, options) and different digests.                         *)
(* I (drift only, never a violation): the counters follow the implementation-shaped model step by step.     *)
EXTENDS GenSiblingsP, Json, IOUtils, TLC

Trace == ndJsonDeserialize(IOEnv.TRACE_FILE)

VARIABLES l, memo

WellFormed(r) ==
    /\ {"id", "type", "templates", "options", "digest", "lim", "uq"} \subseteq DOMAIN r
    /\ {"on", "obs", "n", "eb", "ea", "step", "raw", "kept"} \subseteq DOMAIN r.lim
    /\ {"obs", "ub", "un", "exp"} \subseteq DOMAIN r.uq

Key(r) == <<r.type, r.templates, r.options>>

Verdict(r, m) ==
    IF ~WellFormed(r) THEN "harness.fields"
    ELSE IF ~Judge(m, Key(r), r.digest) THEN "sib.digest"
    ELSE IF r.lim.on = 1 /\ r.lim.obs = 1 /\ r.lim.eb # 0 THEN "drift.limiter_carry"
    ELSE IF r.lim.on = 1 /\ r.lim.obs = 1 /\ r.lim.step = 1
            /\ LimRLE(r.lim.n, r.lim.raw, 1, r.lim.eb, 0) # [kept |-> r.lim.kept, cnt |-> r.lim.ea] THEN "drift.limiter_step"
    ELSE IF r.uq.obs = 1 /\ r.uq.ub # 0 THEN "drift.uniq_reset"
    ELSE IF r.uq.obs = 1 /\ r.uq.exp > 0 /\ r.uq.un # r.uq.exp THEN "drift.uniq_count"
    ELSE "ok"

TInit == l = 1 /\ memo = EmptyMemo
TNext == /\ l <= Len(Trace)
         /\ LET r == Trace[l]
                v == Verdict(r, memo)
            IN /\ IF v = "ok" THEN TRUE ELSE PrintT(<<"REJECT", r.id, v>>)
               /\ memo' = IF WellFormed(r) THEN Learn(memo, Key(r), r.digest) ELSE memo
         /\ l' = l + 1
TSpec == TInit /\ [][TNext]_<<l, memo>>
Accepted == TLCGet("stats").diameter - 1 = Len(Trace)
=============================================================================
