SPECIFICATION Spec
CONSTANTS
  EscMode = "markupsafe"
  LinkStyle = "fixed"
  MaxTok = 3
  Part = "links"
  ListStyle = "versioned"
  Chains = FALSE
  Configs = {}
  SampleConfigs = {"stem", "ext", "both"}
INVARIANT LinksRefineP
CHECK_DEADLOCK FALSE
