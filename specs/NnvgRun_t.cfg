SPECIFICATION Spec
CHECK_DEADLOCK FALSE
CONSTANTS
  Bug = "none"
  Writer = "direct"
  Size = "t"
INVARIANT TypeOK
INVARIANT PHolds
INVARIANT ReplayAgrees
INVARIANT IShape
INVARIANT RefusedOnlyOnConflict
