SPECIFICATION Spec
CONSTANTS
  NTypes = 3
  MaxRuns = 2
  Shapes <- ShapesUniq
  Limits = {0}
  DefIds = {1}
  OmitVals = {FALSE}
  Modes = {"fresh", "lctx", "gen", "proc"}
  ResetLimiter = TRUE
  IdentityDepKey = TRUE
  VolatileUniq = TRUE
  FreshModule = FALSE
VIEW View
INVARIANT SibDigest
INVARIANT LimitRespected
INVARIANT OwnLineKept
CHECK_DEADLOCK FALSE
