SPECIFICATION Spec
CONSTANTS
  NTypes = 3
  MaxRuns = 2
  Shapes <- ShapesUniq
  Limits = {0}
  DefIds = {1}
  OmitVals = {FALSE}
  Modes = {"fresh", "lctx", "gen"}
  ResetLimiter = TRUE
  IdentityDepKey = TRUE
  VolatileUniq = TRUE
  FreshModule = FALSE
  Words = {1}
  FullStropKey = TRUE
  Docs = {0}
  PureFilters = TRUE
  Confs = {0}
  PureDerivedNames = TRUE
VIEW View
INVARIANT EmitBad
CHECK_DEADLOCK FALSE
