---------------------------- MODULE JinjaRelSem ----------------------------
(* C19 -- P-layer and I-layer OPERATORS (no state).  Text is Seq(Nat) of code points.                      *)
(*                                                                                                        *)
(*   Same            the relation of the first sentence: bundled engine vs. stock engine on one rendering  *)
(*   StrictLP        "every non-empty line prefixed by ws", everything else verbatim (text-level reading)  *)
(*   LooseEq         equality modulo line-terminator style and presence of the final terminator            *)
(*   LinePrefixOK    what BOTH readings of the second sentence imply (P)                                   *)
(*   ImplLP          what do_lineprefix does: splitlines / prefix non-empty / join with LF  (I)            *)
(*   MarkerOK        rendering of a marker template against the rendering of the plain template (P)        *)
(*   AssertRaises    `assert e`  ==  raise iff the tag is executed and e is not truthy (P)                 *)
(*   ChainP / ChainI use-query chains: ordinary if/elif/else over the query truth values (P) and the       *)
(*                   parse loop of UseQuery.parse with its carried `negate` flag (I)                       *)
EXTENDS Integers, Sequences, FiniteSets

LF == 10
CR == 13
(* line boundaries of Python's str.splitlines() that are not LF / CR / CRLF                               *)
Exotic == {11, 12, 28, 29, 30, 133, 8232, 8233}

IsPrefix(a, t) == Len(a) <= Len(t) /\ SubSeq(t, 1, Len(a)) = a
IsSuffix(a, t) == Len(a) <= Len(t) /\ SubSeq(t, Len(t) - Len(a) + 1, Len(t)) = a

(* ---------------------------------------------------------------------------------------------------- *)
(* first sentence                                                                                        *)
(* An outcome is [ok |-> 1, out |-> text] or [ok |-> 0, exc |-> "ClassName"].                             *)
Same(b, s) == IF s.ok = 1 THEN b.ok = 1 /\ b.out = s.out ELSE b.ok = 0

(* ---------------------------------------------------------------------------------------------------- *)
(* lines.  ex = TRUE: the exotic boundaries count as terminators too (Python's notion), FALSE: LF CR CRLF *)
IsTerm(c, ex) == c = LF \/ c = CR \/ (ex /\ c \in Exotic)

(* sequence of <<line, terminator>>; a non-empty rest without terminator is a last line with <<>>         *)
RECURSIVE SplitFrom(_, _, _, _)
SplitFrom(t, i, cur, ex) ==
    IF i > Len(t) THEN (IF cur = <<>> THEN <<>> ELSE << <<cur, <<>> >> >>)
    ELSE IF t[i] = CR /\ i < Len(t) /\ t[i + 1] = LF THEN << <<cur, <<CR, LF>> >> >> \o SplitFrom(t, i + 2, <<>>, ex)
    ELSE IF IsTerm(t[i], ex) THEN << <<cur, <<t[i]>> >> >> \o SplitFrom(t, i + 1, <<>>, ex)
    ELSE SplitFrom(t, i + 1, Append(cur, t[i]), ex)

Lines(t, ex) == SplitFrom(t, 1, <<>>, ex)

Pref(line, ws) == IF line = <<>> THEN <<>> ELSE ws \o line

(* text-level reading R1: every non-empty line gets ws in front, terminators and everything else verbatim *)
RECURSIVE StrictFold(_, _, _)
StrictFold(ls, i, ws) == IF i > Len(ls) THEN <<>> ELSE Pref(ls[i][1], ws) \o ls[i][2] \o StrictFold(ls, i + 1, ws)
StrictLP(t, ws, ex) == StrictFold(Lines(t, ex), 1, ws)

(* I-layer: filters.do_lineprefix -- s.splitlines(), prefix + line if line else line, "\n".join(...)       *)
RECURSIVE JoinFold(_, _, _)
JoinFold(ls, i, ws) ==
    IF i > Len(ls) THEN <<>>
    ELSE Pref(ls[i][1], ws) \o (IF i < Len(ls) THEN <<LF>> ELSE <<>>) \o JoinFold(ls, i + 1, ws)
ImplLP(t, ws) == JoinFold(Lines(t, TRUE), 1, ws)

(* terminator style forgotten: every terminator becomes LF                                                *)
RECURSIVE NormFold(_, _)
NormFold(ls, i) == IF i > Len(ls) THEN <<>> ELSE ls[i][1] \o (IF ls[i][2] = <<>> THEN <<>> ELSE <<LF>>) \o NormFold(ls, i + 1)
Norm(t, ex) == NormFold(Lines(t, ex), 1)

(* equal modulo terminator style and modulo one final terminator                                           *)
LooseEq(x, y, ex) ==
    LET a == Norm(x, ex)
        b == Norm(y, ex)
    IN a = b \/ Append(a, LF) = b \/ a = Append(b, LF)

(* P for the marker construct alone: x is the marker rendering of a construct whose plain rendering is c.  *)
(* Implied by the text-level reading (x = StrictLP(c)) and by the line-level reading of "every non-empty   *)
(* line prefixed".                                                                                        *)
LinePrefixOK(x, c, ws) == LooseEq(x, StrictLP(c, ws, FALSE), FALSE)
(* the same with Python's wider notion of a line boundary (only consulted for the ambiguity note)         *)
LinePrefixExoticOK(x, c, ws) == LooseEq(x, StrictLP(c, ws, TRUE), TRUE)

(* ---------------------------------------------------------------------------------------------------- *)
(* the built-in filter `indent(width, first, blank)` as upstream defines it (>= 2.10): s + "\n" is split with    *)
(* str.splitlines(); blank: every line but the first gets the indentation; otherwise every NON-EMPTY line but  *)
(* the first; `first`: the indentation is put in front of the result UNCONDITIONALLY (also when the first line *)
(* is empty, also for the empty string).  The bundled copy of this filter sits next to lineprefix.             *)
Spaces(n) == [i \in 1..n |-> 32]
RECURSIVE JoinWith(_, _, _)
JoinWith(ls, i, sep) == IF i > Len(ls) THEN <<>> ELSE ls[i] \o (IF i < Len(ls) THEN sep ELSE <<>>) \o JoinWith(ls, i + 1, sep)
LineTexts(t) == LET ls == Lines(t, TRUE) IN [i \in 1..Len(ls) |-> ls[i][1]]
Indent(s, width, first, blank) ==
    LET ind  == Spaces(width)
        ls   == LineTexts(Append(s, LF))
        body == IF blank THEN JoinWith(ls, 1, <<LF>> \o ind)
                ELSE JoinWith([i \in 1..Len(ls) |-> IF i = 1 THEN ls[1] ELSE Pref(ls[i], ind)], 1, <<LF>>)
    IN IF first THEN ind \o body ELSE body
(* the slip "the first line follows the rule of the other lines" (negative control of the model)              *)
IndentFirstLikeOthers(s, width, blank) ==
    LET ind == Spaces(width)
        ls  == LineTexts(Append(s, LF))
    IN IF blank THEN JoinWith([i \in 1..Len(ls) |-> ind \o ls[i]], 1, <<LF>>)
       ELSE JoinWith([i \in 1..Len(ls) |-> Pref(ls[i], ind)], 1, <<LF>>)

(* I-layer: parser.autoindent takes  prefix = token.value[:-3]  where the begin token's value is what the   *)
(* lexer alternative `[ \t]*{%\*` / `[ \t]*{{\*` matched: the blanks followed by the three marker characters.   *)
AutoindentPrefix(tokval) == SubSeq(tokval, 1, Len(tokval) - 3)

(* ---------------------------------------------------------------------------------------------------- *)
(* marker template  pre ws {%* construct %} post   vs. plain template  pre {% construct %} post            *)
(* pre is literal text rendered verbatim; post is literal text of which the construct's end tag may have   *)
(* removed leading white space (`-%}`, trim_blocks): s ranges over the suffixes of post whose complement   *)
(* is white space.                                                                                        *)
IsBlank(c) == c = 32 \/ c = 9 \/ c = LF \/ c = CR
PostCuts(post) == {k \in 0..Len(post) : \A j \in 1..k : IsBlank(post[j])}
(* without keep_trailing_newline the engine drops one final newline of the template source                     *)
PostTails(post) == IF post # <<>> /\ post[Len(post)] = LF THEN {0, 1} ELSE {0}
PostCands(post) == {SubSeq(post, k + 1, Len(post) - t) : k \in PostCuts(post), t \in PostTails(post)}

RECURSIVE StripL(_)
StripL(t) == IF t # <<>> /\ IsBlank(t[1]) THEN StripL(Tail(t)) ELSE t
RECURSIVE StripR(_)
StripR(t) == IF t # <<>> /\ IsBlank(t[Len(t)]) THEN StripR(SubSeq(t, 1, Len(t) - 1)) ELSE t
Strip(t) == StripR(StripL(t))

Mid(t, pre, s) == SubSeq(t, Len(pre) + 1, Len(t) - Len(s))

MarkerSplitOK(m, p, pre, post, ws, exotic) ==
    \E s \in PostCands(post) :
           /\ Len(pre) + Len(s) <= Len(p) /\ Len(pre) + Len(s) <= Len(m)
           /\ IsPrefix(pre, p) /\ IsSuffix(s, p) /\ IsPrefix(pre, m) /\ IsSuffix(s, m)
           /\ IF exotic THEN LinePrefixExoticOK(Mid(m, pre, s), Mid(p, pre, s), ws)
                        ELSE LinePrefixOK(Mid(m, pre, s), Mid(p, pre, s), ws)

(* m, p: outcomes of the marker template and of the plain template through the bundled engine             *)
MarkerOK(m, p, pre, post, ws) ==
    IF p.ok = 0 THEN m.ok = 0
    ELSE m.ok = 1 /\ MarkerSplitOK(m.out, p.out, pre, post, ws, FALSE)
MarkerExoticOK(m, p, pre, post, ws) ==
    p.ok = 1 /\ m.ok = 1 /\ MarkerSplitOK(m.out, p.out, pre, post, ws, TRUE)

(* I-layer prediction for the whole marker rendering (drift when it differs although P holds)             *)
MarkerImplOK(m, p, pre, post, ws) ==
    p.ok = 1 /\ m.ok = 1 /\
    \E s \in PostCands(post) :
           /\ Len(pre) + Len(s) <= Len(p.out) /\ IsPrefix(pre, p.out) /\ IsSuffix(s, p.out)
           /\ m.out = pre \o ImplLP(Mid(p.out, pre, s), ws) \o s
(* the text-level reading R1 for the whole rendering (only counted, for the ambiguity note)                *)
MarkerStrictOK(m, p, pre, post, ws) ==
    p.ok = 1 /\ m.ok = 1 /\
    \E s \in PostCands(post) :
           /\ Len(pre) + Len(s) <= Len(p.out) /\ IsPrefix(pre, p.out) /\ IsSuffix(s, p.out)
           /\ m.out = pre \o StrictLP(Mid(p.out, pre, s), ws, FALSE) \o s

(* ---------------------------------------------------------------------------------------------------- *)
(* assert: an ordinary conditional over its argument                                                      *)
AssertRaises(executed, truthy) == executed /\ ~truthy

(* ---------------------------------------------------------------------------------------------------- *)
(* use-query chains.  A clause is [neg |-> BOOLEAN, q |-> "T" | "F" | "U"] (query true / false / not       *)
(* defined for the language).  Outcome: index of the clause whose body is rendered, Len+1 for the else    *)
(* body, 0 for nothing, ChainErr when an undefined query is evaluated.                                    *)
ChainErr == -1
RECURSIVE ChainFrom(_, _, _)
ChainFrom(cl, i, hasElse) ==
    IF i > Len(cl) THEN (IF hasElse THEN Len(cl) + 1 ELSE 0)
    ELSE IF cl[i].q = "U" THEN ChainErr
    ELSE IF (cl[i].q = "T") # cl[i].neg THEN i
    ELSE ChainFrom(cl, i + 1, hasElse)
ChainP(cl, hasElse) == ChainFrom(cl, 1, hasElse)

(* I-layer: UseQuery.parse builds  If(test_1, body_1, elif_ = [If(test_2, ...), ...], else_)  in a loop    *)
(* that carries `negate` from one iteration to the next: it is set from the opening tag, then from each   *)
(* elifuses (FALSE) / elifnuses (TRUE) tag.  tags[i] is "ifuses" | "ifnuses" | "elifuses" | "elifnuses".   *)
(* reset = FALSE models the slip "elifuses does not clear the flag" (negative control of the model).            *)
RECURSIVE ParseLoop(_, _, _, _, _)
ParseLoop(tags, i, negate, acc, reset) ==
    IF i > Len(tags) THEN acc
    ELSE LET n == IF tags[i] \in {"ifnuses", "elifnuses"} THEN TRUE
                  ELSE IF tags[i] = "ifuses" \/ (tags[i] = "elifuses" /\ reset) THEN FALSE ELSE negate
         IN ParseLoop(tags, i + 1, n, Append(acc, [method |-> IF n THEN "_use_nquery" ELSE "_use_query"]), reset)

(* evaluation of the If node as compiler.visit_If does it: tests in order, first true wins                 *)
RECURSIVE EvalIf(_, _, _, _)
EvalIf(node, truth, i, hasElse) ==
    IF i > Len(node) THEN (IF hasElse THEN Len(node) + 1 ELSE 0)
    ELSE IF truth[i] = "U" THEN ChainErr
    ELSE LET raw == truth[i] = "T"
             v   == IF node[i].method = "_use_nquery" THEN ~raw ELSE raw
         IN IF v THEN i ELSE EvalIf(node, truth, i + 1, hasElse)

TagOf(cl, i) == IF i = 1 THEN (IF cl[i].neg THEN "ifnuses" ELSE "ifuses") ELSE (IF cl[i].neg THEN "elifnuses" ELSE "elifuses")
ChainIWith(cl, hasElse, reset) ==
    LET tags == [i \in 1..Len(cl) |-> TagOf(cl, i)]
        node == ParseLoop(tags, 1, FALSE, <<>>, reset)
    IN EvalIf(node, [i \in 1..Len(cl) |-> cl[i].q], 1, hasElse)
ChainI(cl, hasElse) == ChainIWith(cl, hasElse, TRUE)
=============================================================================
