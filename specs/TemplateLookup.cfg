\* loaders with ONE template set (the code as it is): I => P.  vf/props/c16.py generates this for chain5, tree5, diamond5 (tree6 thorough)
SPECIFICATION Spec
CHECK_DEADLOCK FALSE
INVARIANT RefNearest
INVARIANT RefSource
INVARIANT RefHistory
INVARIANT CacheSound
INVARIANT BfsIsNearest
INVARIANT NameRefines
CONSTANTS
  Shape = "chain5"
  Modes = {"fs", "pkg"}
  MaxLookups = 3
  SharedCache = TRUE
  MaxAdds = 1
  StrictGlobals = FALSE
