SPECIFICATION DocSpec
CONSTANTS
  Langs = {"c", "cpp"}
  BaseSet = "families"
  MaxMut = 1
  MaxBoth = 1
  Star = TRUE
  HashBits = 32
INVARIANT EmitDoc
CHECK_DEADLOCK FALSE
