SPECIFICATION Spec
CONSTANTS
  CopyMode = "rebuild"
  Mode = "hist"
  Universe <- UNegHist
  Sharings = {"none", "doc"}
  AnyOrder = FALSE
  NB = 2
  MaxOps = 6
  Group = "none"
  Record = FALSE
  Slice = 0
  NSlices = 1
INVARIANT Refines
INVARIANT DocsUnmodified
INVARIANT CtxStable
CHECK_DEADLOCK FALSE
