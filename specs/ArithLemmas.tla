---------------------------- MODULE ArithLemmas ----------------------------
(* Unbounded (all naturals) facts about the integer operators the P-layer specifications use.  TLC checks them only   *)
(* for the small constants of its configurations; here they are THEOREMS checked by the TLA+ proof system (tlapm,    *)
(* SMT back end).  The definitions are textual copies of BitPrimsP!SatBits, BitPrimsP!Min2 and DsdlWire!PadUp; the    *)
(* check `lemmas` in vf/lemmas.py compares the copies with the originals token by token before it trusts the proofs. *)
EXTENDS Naturals, Integers

Min2(a, b) == IF a < b THEN a ELSE b
Max2(a, b) == IF a > b THEN a ELSE b
SatBits(size, off, len) == Min2(len, (8 * size) - Min2(8 * size, off))
PadUp(x, a) == ((x + a - 1) \div a) * a

(* the saturated fragment never exceeds the request and never reaches beyond the buffer *)
THEOREM SatWithin ==
    ASSUME NEW size \in Nat, NEW off \in Nat, NEW len \in Nat
    PROVE  /\ SatBits(size, off, len) \in Nat
           /\ SatBits(size, off, len) <= len
           /\ off <= 8 * size => off + SatBits(size, off, len) <= 8 * size
           /\ off >= 8 * size => SatBits(size, off, len) = 0
  BY DEF SatBits, Min2

(* it is the whole request exactly when the request lies inside the buffer (or is empty) *)
THEOREM SatExact ==
    ASSUME NEW size \in Nat, NEW off \in Nat, NEW len \in Nat
    PROVE  (SatBits(size, off, len) = len) <=> (len = 0 \/ off + len <= 8 * size)
  <1>1. CASE off >= 8 * size
    <2>1. SatBits(size, off, len) = 0  BY <1>1 DEF SatBits, Min2
    <2> QED BY <1>1, <2>1
  <1>2. CASE off < 8 * size
    <2>1. SatBits(size, off, len) = Min2(len, 8 * size - off)  BY <1>2 DEF SatBits, Min2
    <2> QED BY <1>2, <2>1 DEF Min2
  <1> QED BY <1>1, <1>2

(* it is monotone in the buffer size and in the request, antitone in the offset *)
THEOREM SatMonotone ==
    ASSUME NEW size \in Nat, NEW off \in Nat, NEW len \in Nat
    PROVE  /\ SatBits(size, off, len) <= SatBits(size + 1, off, len)
           /\ SatBits(size, off, len) <= SatBits(size, off, len + 1)
           /\ SatBits(size, off + 1, len) <= SatBits(size, off, len)
  BY DEF SatBits, Min2

(* the set contract refuses (8 * size < off + len) exactly when the fragment is cut short, or the empty request starts beyond the end *)
THEOREM SetRefusalIffCutShort ==
    ASSUME NEW size \in Nat, NEW off \in Nat, NEW len \in Nat
    PROVE  (8 * size < off + len) <=> (SatBits(size, off, len) < len \/ (len = 0 /\ off > 8 * size))
  <1>1. CASE off >= 8 * size
    <2>1. SatBits(size, off, len) = 0  BY <1>1 DEF SatBits, Min2
    <2> QED BY <1>1, <2>1
  <1>2. CASE off < 8 * size
    <2>1. SatBits(size, off, len) = Min2(len, 8 * size - off)  BY <1>2 DEF SatBits, Min2
    <2> QED BY <1>2, <2>1 DEF Min2
  <1> QED BY <1>1, <1>2

(* alignment padding for the two alignments DSDL has (1 and 8) *)
THEOREM PadUp1 == ASSUME NEW x \in Nat PROVE PadUp(x, 1) = x
  BY DEF PadUp
THEOREM PadUp8 ==
    ASSUME NEW x \in Nat
    PROVE  /\ PadUp(x, 8) \in Nat
           /\ PadUp(x, 8) >= x
           /\ PadUp(x, 8) < x + 8
           /\ PadUp(x, 8) % 8 = 0
           /\ x % 8 = 0 => PadUp(x, 8) = x
  BY DEF PadUp
THEOREM PadUpIdempotent == ASSUME NEW x \in Nat PROVE PadUp(PadUp(x, 8), 8) = PadUp(x, 8)
  BY DEF PadUp
THEOREM PadUpMonotone == ASSUME NEW x \in Nat, NEW y \in Nat, x <= y PROVE PadUp(x, 8) <= PadUp(y, 8)
  BY DEF PadUp
(* bytes needed for a bit count (bits2bytes of the generated code) *)
THEOREM BytesOfBitsCount ==
    ASSUME NEW n \in Nat
    PROVE  /\ 8 * ((n + 7) \div 8) = PadUp(n, 8)
           /\ (n + 7) \div 8 = (IF n % 8 = 0 THEN n \div 8 ELSE n \div 8 + 1)
  BY DEF PadUp
=============================================================================
