SPECIFICATION Spec
CONSTANTS
  EscMode = "markupsafe"
  LinkStyle = "samepage"
  MaxTok = 3
  Part = "links"
  Chains = TRUE
INVARIANT LinksRefineP
CHECK_DEADLOCK FALSE
