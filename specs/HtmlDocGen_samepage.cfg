SPECIFICATION Spec
CONSTANTS
  EscMode = "markupsafe"
  LinkStyle = "samepage"
  MaxTok = 3
  Part = "links"
  ListStyle = "versioned"
  Chains = TRUE
  Configs = {"default"}
  SampleConfigs = {}
INVARIANT LinksRefineP
CHECK_DEADLOCK FALSE
