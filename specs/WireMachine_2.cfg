SPECIFICATION Spec
CONSTANTS
  Little = TRUE
  Level = 2
  Bug = "none"
INVARIANT Refines
INVARIANT StaysInside
CHECK_DEADLOCK FALSE
