SPECIFICATION Spec
CONSTANTS
  Langs = {"c", "cpp", "py", "html"}
  Exts = {"def"}
  Stems = {"def"}
  SupTpls = {FALSE, TRUE}
  NsVals = {FALSE, TRUE}
  Shapes = {"plain", "sibling", "rsibling"}
  Wipes = FALSE
  PFiles = {"tplB", "tplU", "supB", "supU", "supUx", "dsdlR", "dsdlD", "dsdlX"}
  MaxLo = 0
  MaxLi = 1
  MaxDry = 0
  MaxRun = 4
  Linear = FALSE
  QuickOnly = FALSE
  FwdOmitToList = TRUE
  ListDeps = TRUE
  OwnByPrefix = FALSE
  ListUserSup = TRUE
INVARIANT Refines
INVARIANT DomainAsPredicted
INVARIANT InfluenceAsPredicted
CHECK_DEADLOCK FALSE
