------------------------------ MODULE DsdlMeta ------------------------------
(* P-layer for the metadata clauses of C05: what the generated code must export for a definition.             *)
(*  exp : [full_name, major, minor, port (-1 = none), consts : Seq([name, k, w, neg, num, den]), caps, nopt]    *)
(*        name/full_name are code-point sequences; num/den bit strings (value = (-1)^neg * num / den)           *)
(*  obs : what a compiled / imported probe reports                                                              *)
EXTENDS DsdlWire, BigNat

RECURSIVE DecDigits(_)
DecDigits(n) == IF n < 10 THEN <<48 + n>> ELSE DecDigits(n \div 10) \o <<48 + (n % 10)>>
Dot == <<46>>
FullNameAndVersion(e) == e.full_name \o Dot \o DecDigits(e.major) \o Dot \o DecDigits(e.minor)

Not(bits) == [i \in 1..Len(bits) |-> 1 - bits[i]]
TwoC64(neg, num) == IF neg /\ ~BIsZero(num) THEN Inc(Force(Not(Take(num, 64)), 64)) ELSE Take(num, 64)

IntConstOK(c, o) ==
    /\ BLen(c.den) = 1                                                       \* an integer
    /\ BLen(c.num) <= 64
    /\ BitsOfBytes(o.bytes) = TwoC64(c.neg, c.num)
    /\ (o.neg = 1) = (c.neg /\ ~BIsZero(c.num))                              \* also catches a literal of the wrong signedness

BoolConstOK(c, o) == o.bytes = <<IF BIsZero(c.num) THEN 0 ELSE 1>>

(* |obs - num/den| <= 1 unit in the last place of the DECLARED type at the magnitude of obs *)
FloatConstOK(c, o) ==
    LET f == BitsOfBytes(o.bytes)
        ws == Len(f)
        ms == MantW(ws)
        M == IF ExpF(f) = 0 THEN Mant(f) ELSE Mant(f) \o <<1>>
        E == (IF ExpF(f) = 0 THEN 1 ELSE ExpF(f)) - Bias(ws) - ms
        md == MantW(c.w)
        emin == 1 - Bias(c.w)
        top == IF BIsZero(M) THEN emin ELSE E + BLen(M) - 1
        Eu == (IF top > emin THEN top ELSE emin) - md
        K == IF -E > -Eu THEN (IF -E > 0 THEN -E ELSE 0) ELSE (IF -Eu > 0 THEN -Eu ELSE 0)
        A == BShl(BMul(M, c.den), E + K)
        B == BShl(c.num, K)
        C == BShl(c.den, Eu + K)
    IN /\ IsFinite(f)
       /\ (BIsZero(M) \/ BIsZero(c.num) \/ (Sign(f) = 1) = c.neg)
       /\ BCmp(BAbsDiff(A, B), C) <= 0

ConstOK(c, o) ==
    IF ~o.present THEN FALSE
    ELSE IF c.k = "bool" THEN BoolConstOK(c, o)
    ELSE IF c.k = "float" THEN FloatConstOK(c, o)
    ELSE IntConstOK(c, o)

MetaDeepVerdict(r) ==
    LET e == r.exp
        o == r.obs
    IN  IF o.extent # ExtentBytes(r.t) THEN "meta.extent"
        ELSE IF o.bufsize >= 0 /\ o.bufsize # BufBytes(r.t) THEN "meta.bufsize"
        ELSE IF o.has_name /\ (o.full_name # e.full_name \/ o.fnv # FullNameAndVersion(e)) THEN "meta.name"
        ELSE IF o.has_port # (e.port >= 0) \/ (e.port >= 0 /\ o.port # e.port) THEN "meta.portid"
        ELSE IF o.has_caps /\ o.caps # e.caps THEN "meta.capacity"
        ELSE IF o.nopt >= 0 /\ o.nopt # e.nopt THEN "meta.options"
        ELSE IF Len(o.consts) # Len(e.consts) THEN "meta.const"
        ELSE IF \E i \in 1..Len(e.consts) : ~ConstOK(e.consts[i], o.consts[i]) THEN "meta.const"
        ELSE "ok"
=============================================================================
