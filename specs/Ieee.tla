-------------------------------- MODULE Ieee --------------------------------
(* IEEE 754 binary16/32/64 on bit strings (LSB first, as on the wire): exact widening and the FAITHFUL    *)
(* narrowing relation (result is the truncation or its successor; exact values have one result).           *)
EXTENDS Bits

MantW(w) == IF w = 16 THEN 10 ELSE IF w = 32 THEN 23 ELSE 52
ExpW(w)  == IF w = 16 THEN 5 ELSE IF w = 32 THEN 8 ELSE 11
Bias(w)  == IF w = 16 THEN 15 ELSE IF w = 32 THEN 127 ELSE 1023

Mant(f)    == SubSeq(f, 1, MantW(Len(f)))                               \* LSB first
ExpBits(f) == SubSeq(f, MantW(Len(f)) + 1, Len(f) - 1)
ExpF(f)    == UVal(ExpBits(f), 1)                                       \* <= 2047
Sign(f)    == f[Len(f)]
ExpAllOnes(f) == \A i \in 1..Len(ExpBits(f)) : ExpBits(f)[i] = 1
MantZero(f)   == \A i \in 1..MantW(Len(f)) : f[i] = 0

IsNaN(f)  == ExpAllOnes(f) /\ ~MantZero(f)
IsInf(f)  == ExpAllOnes(f) /\ MantZero(f)
IsZero(f) == ExpF(f) = 0 /\ MantZero(f)
IsSub(f)  == ExpF(f) = 0 /\ ~MantZero(f)
IsFinite(f) == ~ExpAllOnes(f)

Mk(sign, e, mant, w) == mant \o OfNat(e, ExpW(w)) \o <<sign>>           \* mant: MantW(w) bits LSB first
InfP(sign, w) == Mk(sign, Pow2(ExpW(w)) - 1, Zeros(MantW(w)), w)
QNaN(sign, w) == Mk(sign, Pow2(ExpW(w)) - 1, [i \in 1..MantW(w) |-> IF i = MantW(w) THEN 1 ELSE 0], w)
MaxFinite(sign, w) == Mk(sign, Pow2(ExpW(w)) - 2, Ones(MantW(w)), w)
ZeroP(sign, w) == Mk(sign, 0, Zeros(MantW(w)), w)

(* position (1 = LSB) of the highest set mantissa bit, 0 if none *)
RECURSIVE TopBit(_, _)
TopBit(m, i) == IF i = 0 THEN 0 ELSE IF m[i] = 1 THEN i ELSE TopBit(m, i - 1)

(* ---- exact widening from width Len(f) to width w (w > Len(f)) ----                                     *)
Widen(f, w) ==
    LET ws == Len(f)
        ms == MantW(ws)
        md == MantW(w)
        pad == md - ms
    IN  IF ExpAllOnes(f) THEN Mk(Sign(f), Pow2(ExpW(w)) - 1, Zeros(pad) \o Mant(f), w)            \* inf / NaN (payload kept)
        ELSE IF IsZero(f) THEN ZeroP(Sign(f), w)
        ELSE IF IsSub(f) THEN
            (* value = mant * 2^(1 - bias_s - ms); top set bit t  =>  1.xxx * 2^(t - 1 + 1 - bias_s - ms) *)
            LET t == TopBit(Mant(f), ms)
                e == t - ms - Bias(ws) + Bias(w)             \* unbiased (t - 1) + (1 - bias_s - ms), rebiased
                frac == [i \in 1..md |-> LET j == i - (md - (t - 1)) IN IF j >= 1 /\ j <= t - 1 THEN Mant(f)[j] ELSE 0]
            IN Mk(Sign(f), e, frac, w)
        ELSE Mk(Sign(f), (ExpF(f) + Bias(w)) - Bias(ws), Zeros(pad) \o Mant(f), w)

(* ---- faithful narrowing of a FINITE, non-zero-exponent-overflowing source ----                           *)
(* magnitude pattern (w-1 bits: mantissa ++ exponent) of the truncation towards zero, and exactness        *)
NarrowLo(f, w) ==
    LET ws == Len(f)
        ms == MantW(ws)
        md == MantW(w)
        S == Mant(f) \o <<1>>                                 \* significand 1.m, ms+1 bits, LSB first (normal source)
        eu == ExpF(f) - Bias(ws)                              \* unbiased exponent of a normal source
        emin == 1 - Bias(w)                                   \* smallest normal exponent of the target
    IN  IF IsZero(f) THEN [mag |-> Zeros(w - 1), exact |-> TRUE, over |-> FALSE]
        ELSE IF IsSub(f) THEN [mag |-> Zeros(w - 1), exact |-> FALSE, over |-> FALSE]     \* far below the target's range
        ELSE IF eu > Bias(w) THEN [mag |-> Zeros(w - 1), exact |-> FALSE, over |-> TRUE]  \* |x| >= 2^(emax+1)
        ELSE IF eu >= emin THEN
            (* normal in the target: keep the top md mantissa bits *)
            LET drop == ms - md
            IN [mag |-> SubSeq(Mant(f), drop + 1, ms) \o OfNat(eu + Bias(w), ExpW(w)), exact |-> AllZero(Mant(f), 1, drop), over |-> FALSE]
        ELSE
            (* subnormal in the target: shift the significand right *)
            LET shift == emin - eu                                          \* >= 1
                dropn == (ms - md) + shift                                  \* low bits of S that are lost
            IN  IF dropn >= ms + 1 THEN [mag |-> Zeros(w - 1), exact |-> FALSE, over |-> FALSE]
                ELSE [mag |-> [i \in 1..md |-> IF dropn + i <= ms + 1 THEN S[dropn + i] ELSE 0] \o Zeros(ExpW(w)),
                      exact |-> AllZero(S, 1, dropn), over |-> FALSE]

(* |f| > largest finite value of the target width *)
AboveMax(f, w) ==
    LET r == NarrowLo(f, w)
    IN IsFinite(f) /\ (r.over \/ (r.mag = SubSeq(MaxFinite(0, w), 1, w - 1) /\ ~r.exact))

(* the relation: is `h` (w bits) an acceptable narrowing of `f` under cast mode `sat`?                     *)
Faithful(f, h, sat) ==
    LET w == Len(h)
        r == NarrowLo(f, w)
    IN  IF IsNaN(f) THEN IsNaN(h)
        ELSE IF IsInf(f) THEN h = InfP(Sign(f), w)
        ELSE IF sat /\ AboveMax(f, w) THEN h = MaxFinite(Sign(f), w)
        ELSE IF r.over THEN h = InfP(Sign(f), w)
        ELSE /\ Sign(h) = Sign(f)
             /\ \/ SubSeq(h, 1, w - 1) = r.mag
                \/ ~r.exact /\ SubSeq(h, 1, w - 1) = Inc(r.mag)

(* a canonical acceptable result (truncation; used when no observation is available)                       *)
NarrowCanon(f, w, sat) ==
    LET r == NarrowLo(f, w)
    IN  IF IsNaN(f) THEN QNaN(Sign(f), w)
        ELSE IF IsInf(f) THEN InfP(Sign(f), w)
        ELSE IF sat /\ AboveMax(f, w) THEN MaxFinite(Sign(f), w)
        ELSE IF r.over THEN InfP(Sign(f), w)
        ELSE r.mag \o <<Sign(f)>>

(* narrowing with an observation as hint: the observation if it is acceptable, else the canonical result   *)
Narrow(f, w, sat, hint) == IF Len(hint) = w /\ Faithful(f, hint, sat) THEN hint ELSE NarrowCanon(f, w, sat)

(* equality of float patterns up to NaN payload/sign (neither DSDL nor C float<->double conversions fix them) *)
FloatEq(a, b) == IF IsNaN(a) THEN Len(a) = Len(b) /\ IsNaN(b) ELSE a = b
=============================================================================
