----------------------------- MODULE WireDesign -----------------------------
(* Bounded design check of the wire-format specification itself (C01 C02 C03 C05): for every type of a small *)
(* universe and every value built from boundary leaves (including out-of-range storage values, over-long     *)
(* arrays and invalid union tags) TLC evaluates the theorems below.  One state per (type, value).            *)
EXTENDS DsdlWire, TLC, FiniteSets

CONSTANT Level        \* 1: quick universe, 2: larger

VARIABLE ti

Uint(w, s) == [k |-> "uint", w |-> w, sat |-> s]
Sint(w) == [k |-> "int", w |-> w]
Bool == [k |-> "bool"]
Flt(w, s) == [k |-> "float", w |-> w, sat |-> s]
Void(w) == [k |-> "void", w |-> w]
FArr(e, n) == [k |-> "farr", n |-> n, e |-> e]
VArr(e, c) == [k |-> "varr", cap |-> c, wcap |-> c, e |-> e]
Struct0(fs, sealed, ext) == [k |-> "struct", fields |-> fs, sealed |-> sealed, extent |-> ext]
Union0(fs, sealed, ext) == [k |-> "union", fields |-> fs, sealed |-> sealed, extent |-> ext]
(* sealed composites: the extent is the padded maximum; delimited: maximum + slack bytes *)
Struct(fs) == Struct0(fs, TRUE, MaxBitsBody(Struct0(fs, TRUE, 0)))
StructD(fs, slack) == Struct0(fs, FALSE, MaxBitsBody(Struct0(fs, TRUE, 0)) + 8 * slack)
Union(fs) == Union0(fs, TRUE, MaxBitsBody(Union0(fs, TRUE, 0)))
UnionD(fs, slack) == Union0(fs, FALSE, MaxBitsBody(Union0(fs, TRUE, 0)) + 8 * slack)

InnerS == Struct(<<Uint(8, TRUE), Sint(5)>>)
InnerD == StructD(<<Uint(8, TRUE), Sint(5)>>, 2)
InnerD0 == StructD(<<Uint(3, FALSE)>>, 0)
InnerU == Union(<<Uint(3, TRUE), VArr(Sint(3), 2)>>)

Types1 == <<
    Struct(<<Uint(3, TRUE), Uint(3, FALSE), Bool>>),
    Struct(<<Uint(1, TRUE), Sint(2), Sint(9)>>),
    Struct(<<Bool, Uint(13, TRUE), Void(3), Sint(13)>>),
    Struct(<<Uint(3, TRUE), Flt(16, TRUE), Bool>>),
    Struct(<<Flt(16, FALSE), Uint(5, TRUE)>>),
    Struct(<<Bool, Flt(32, TRUE)>>),
    Struct(<<Uint(2, TRUE), FArr(Sint(3), 2), Bool>>),
    Struct(<<Uint(2, TRUE), VArr(Uint(3, FALSE), 2), Bool>>),
    Struct(<<VArr(Bool, 3), Uint(7, TRUE)>>),
    Struct(<<Uint(3, TRUE), InnerS, Uint(8, TRUE)>>),
    Struct(<<Uint(3, TRUE), InnerD, Uint(8, TRUE)>>),
    Struct(<<InnerD0, Bool>>),
    Struct(<<VArr(InnerD, 2), Uint(8, TRUE)>>),
    Struct(<<FArr(InnerS, 2)>>),
    Struct(<<Bool, InnerU, Bool>>),
    Union(<<Uint(8, TRUE), Sint(3), FArr(Bool, 3)>>),
    UnionD(<<InnerD, Uint(5, FALSE)>>, 1),
    StructD(<<Uint(9, TRUE), VArr(Sint(2), 2)>>, 3),
    Struct(<<>>),
    StructD(<<>>, 2) >>

Types2 == Types1 \o <<
    Struct(<<Uint(7, FALSE), Uint(17, TRUE), Sint(17)>>),
    Struct(<<Bool, Uint(33, TRUE), Sint(33)>>),
    Struct(<<Uint(5, TRUE), Uint(64, TRUE), Sint(64)>>),
    Struct(<<Uint(1, TRUE), Flt(64, TRUE), Flt(32, FALSE)>>),
    Struct(<<Uint(3, TRUE), VArr(InnerU, 2)>>),
    Struct(<<StructD(<<InnerD, Bool>>, 1), Sint(7)>>),
    Union(<<VArr(InnerD, 1), Flt(16, TRUE)>>),
    Struct(<<VArr(Flt(16, TRUE), 2), Bool>>) >>

Types == IF Level = 1 THEN Types1 ELSE Types2

(* ---- boundary leaves in C storage form ----                                                                 *)
SW(w) == StoreW("c", w)
Bit1At(n, i) == [j \in 1..n |-> IF j = i THEN 1 ELSE 0]
UPatterns(w) == {Zeros(SW(w)), Take(Ones(w), SW(w)), Bit1At(SW(w), 1), Ones(SW(w))}
                \cup (IF SW(w) > w THEN {Bit1At(SW(w), w + 1)} ELSE {})            \* 2^w: just out of range
SPatterns(w) == {Zeros(SW(w)), Ones(SW(w)), Take(Ones(w - 1), SW(w)), SignExtTo(Bit1At(w, w), SW(w))}
                \cup (IF SW(w) > w THEN {Take(Ones(w), SW(w)), SignExtTo(Zeros(w - 1) \o <<0, 1>>, SW(w))} ELSE {})   \* max+1.., min-1..
F32(sign, e, mtop) == Mk(sign, e, [i \in 1..23 |-> IF i = 23 THEN mtop ELSE 0], 32)
F32m(sign, e, mbits) == Mk(sign, e, mbits, 32)
FPatterns(w) ==
    IF w = 16 THEN {ZeroP(0, 32), ZeroP(1, 32), F32(0, 127, 0), F32(1, 128, 1), InfP(0, 32), InfP(1, 32), QNaN(0, 32),
                    F32m(0, 142, [i \in 1..23 |-> IF i >= 14 THEN 1 ELSE 0]),       \* 65504 = max half
                    F32m(0, 142, [i \in 1..23 |-> IF i >= 13 THEN 1 ELSE 0]),       \* 65520: above max, rounds to inf
                    F32(1, 143, 0),                                                 \* -65536
                    F32m(0, 127, [i \in 1..23 |-> IF i = 13 THEN 1 ELSE 0]),        \* 1 + 2^-11: exactly half way
                    F32m(0, 127, [i \in 1..23 |-> IF i = 1 THEN 1 ELSE 0]),         \* 1 + 2^-23: inexact
                    F32(0, 103, 0), F32(0, 102, 1), F32(0, 100, 0)}                \* half subnormal range and below
    ELSE IF w = 32 THEN {ZeroP(0, 32), F32(1, 127, 1), InfP(0, 32), QNaN(1, 32), MaxFinite(0, 32), Mk(0, 0, Bit1At(23, 1), 32)}
    ELSE {ZeroP(0, 64), Mk(1, 1023, Bit1At(52, 52), 64), InfP(1, 64), QNaN(0, 64), MaxFinite(0, 64), Mk(0, 0, Bit1At(52, 1), 64)}

(* Values are enumerated as SEQUENCES (TLC cannot put records and tuples into one set), indexed by the state.     *)
SetToSeq(S) == LET RECURSIVE go(_) 
                   go(X) == IF X = {} THEN <<>> ELSE LET x == CHOOSE y \in X : TRUE IN <<x>> \o go(X \ {x})
               IN go(S)
LeafSeq(t) ==
    IF t.k = "uint" THEN SetToSeq({BytesOfBits(p) : p \in UPatterns(t.w)})
    ELSE IF t.k = "int" THEN SetToSeq({BytesOfBits(p) : p \in SPatterns(t.w)})
    ELSE IF t.k = "bool" THEN << <<0>>, <<1>> >>
    ELSE IF t.k = "float" THEN SetToSeq({BytesOfBits(p) : p \in FPatterns(t.w)})
    ELSE << <<>> >>

FewSeq(s) == IF Len(s) <= 2 THEN s ELSE <<s[1], s[Len(s)]>>
(* all Append(p, x) for p in ps, x in xs *)
Cross(ps, xs) == [i \in 1..(Len(ps) * Len(xs)) |-> Append(ps[((i - 1) \div Len(xs)) + 1], xs[((i - 1) % Len(xs)) + 1])]
RECURSIVE Flat(_, _)
Flat(ss, i) == IF i > Len(ss) THEN <<>> ELSE ss[i] \o Flat(ss, i + 1)
RECURSIVE Power(_, _)
Power(xs, n) == IF n = 0 THEN << <<>> >> ELSE Cross(Power(xs, n - 1), xs)

RECURSIVE Vals(_, _), FieldVals(_, _, _)
FieldVals(fs, i, d) ==                       \* sequences of field-value tuples for fields i..
    IF i > Len(fs) THEN << <<>> >>
    ELSE LET rest == FieldVals(fs, i + 1, d)
             mine == Vals(fs[i], d)
         IN [j \in 1..(Len(mine) * Len(rest)) |-> <<mine[((j - 1) \div Len(rest)) + 1]>> \o rest[((j - 1) % Len(rest)) + 1]]
Vals(t, d) ==
    IF IsPrim(t) THEN (IF d = 0 THEN LeafSeq(t) ELSE FewSeq(LeafSeq(t)))
    ELSE IF t.k = "farr" THEN Power(Vals(t.e, d + 1), t.n)
    ELSE IF t.k = "varr" THEN
        Flat([c \in 1..(t.cap + 1) |-> LET ps == Power(Vals(t.e, d + 1), c - 1) IN [j \in 1..Len(ps) |-> [n |-> c - 1, e |-> ps[j]]]], 1)
        \o <<[n |-> t.cap + 1, e |-> <<>>]>>
    ELSE IF t.k = "struct" THEN FieldVals(t.fields, 1, IF d = 0 /\ Len(t.fields) <= 3 THEN 0 ELSE d + 1)
    ELSE Flat([i \in 1..Len(t.fields) |-> LET xs == Vals(t.fields[i], d + 1) IN [j \in 1..Len(xs) |-> [tag |-> i - 1, v |-> xs[j]]]], 1)
         \o <<[tag |-> Len(t.fields), v |-> <<>>]>>

TopVals(t) == IF t.k = "struct" THEN FieldVals(t.fields, 1, 0) ELSE Vals(t, 0)
AllVals == [i \in 1..Len(Types) |-> TopVals(Types[i])]       \* constant: evaluated once by TLC

VARIABLE vi
(* one initial state; the first step picks the case, so that TLC's workers evaluate the theorems in parallel *)
Init == ti = 0 /\ vi = 0
PickType == ti = 0 /\ ti' \in 1..Len(Types) /\ vi' = 0
PickVal  == ti # 0 /\ vi = 0 /\ vi' \in 1..Len(AllVals[ti]) /\ UNCHANGED ti
Next == PickType \/ PickVal
Spec == Init /\ [][Next]_<<ti, vi>>

v == AllVals[IF ti = 0 THEN 1 ELSE ti][IF vi = 0 THEN 1 ELSE vi]
T == Types[IF ti = 0 THEN 1 ELSE ti]
R == Ser(T, v, <<>>)
D == Des("c", T, R.out)

(* ---- theorems ----                                                                                          *)
(* C01/C05: a serialization is a whole number of bytes within the advertised bounds *)
SizeBoundsBody == R.err = "none" => /\ Len(R.out) % 8 = 0
                                /\ MinBitsBody(T) <= Len(R.out) /\ Len(R.out) <= MaxBitsBody(T)
                                /\ Len(R.out) \div 8 <= BufBytes(T) /\ BufBytes(T) <= ExtentBytes(T)
(* C01: unrepresentable objects are refused, representable ones are not *)
RECURSIVE Valid(_, _)
Valid(t, x) ==
    IF IsPrim(t) THEN TRUE
    ELSE IF t.k = "farr" THEN \A i \in 1..t.n : Valid(t.e, x[i])
    ELSE IF t.k = "varr" THEN x.n <= t.cap /\ \A i \in 1..x.n : Valid(t.e, x.e[i])
    ELSE IF t.k = "struct" THEN \A i \in 1..Len(t.fields) : Valid(t.fields[i], x[i])
    ELSE x.tag < Len(t.fields) /\ Valid(t.fields[x.tag + 1], x.v)
RefusesInvalidBody == (R.err = "none") <=> Valid(T, v)
(* C03: decoding an encoding succeeds, consumes it entirely, and re-encoding the decoded value gives the same bytes *)
RoundTripBody == R.err = "none" => /\ D.err = "none" /\ D.pos = Len(R.out)
                               /\ Ser(T, D.val, R.out).out = R.out
(* C02: implicit zero extension - a truncated encoding decodes like the same bytes followed by zeros (where the   *)
(* truncated buffer is accepted at all: a cut inside a delimited object makes its header exceed the buffer)      *)
ZeroExtensionBody ==
    R.err = "none" =>
        \A cut \in 0..(Len(R.out) \div 8) :
            LET short == SubSeq(R.out, 1, 8 * cut)
                d1 == Des("c", T, short)
                d2 == Des("c", T, short \o Zeros(Len(R.out) - 8 * cut + 16))
            IN /\ d1.err = "none" => (d2.err = "none" /\ ValEq(T, d1.val, d2.val))
               /\ Consumed(T, short, d1) <= cut
(* C02: implicit truncation - trailing garbage is ignored *)
TruncationBody ==
    R.err = "none" =>
        LET d3 == Des("c", T, R.out \o Ones(16))
        IN d3.err = "none" /\ ValEq(T, d3.val, D.val) /\ Consumed(T, R.out \o Ones(16), d3) = Len(R.out) \div 8
(* C03: the Python storage policy decodes the same bits to the same numbers (integers sign/zero-extended further)  *)
PyAgreesBody == R.err = "none" => Des("py", T, R.out).err = "none" /\ Des("py", T, R.out).pos = D.pos
SizeBounds == vi # 0 => SizeBoundsBody
RefusesInvalid == vi # 0 => RefusesInvalidBody
RoundTrip == vi # 0 => RoundTripBody
ZeroExtension == vi # 0 => ZeroExtensionBody
Truncation == vi # 0 => TruncationBody
PyAgrees == vi # 0 => PyAgreesBody
=============================================================================
