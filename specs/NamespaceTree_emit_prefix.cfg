SPECIFICATION Spec
CONSTANTS
  Roots <- RootsRIf
  Names <- NamesPrefix
  Shorts <- ShortsT
  TwoVer <- TwoVerT
  MaxDepth = 2
  MaxTypes = 2
  StropMode = "prefix"
  GenNsChoices = {FALSE}
  Spellings = {"rel"}
  CanonNs = FALSE
  SupportFromRootParent = FALSE
INVARIANT Emit
CHECK_DEADLOCK FALSE
