SPECIFICATION Spec
CONSTANTS
  Roots <- RootsR
  Names <- NamesPrefix
  Shorts <- ShortsT
  TwoVer <- TwoVerT
  MaxDepth = 2
  MaxTypes = 3
  StropMode = "prefix"
  GenNsChoices = {FALSE}
  Spellings = {"rel"}
  CanonNs = FALSE
  SupportFromRootParent = FALSE
INVARIANT Refines
INVARIANT IndexClosed
INVARIANT MadeIndexed
INVARIANT AtMostOneParent
INVARIANT OneWritePerFile
INVARIANT FoldedOnlyWithKeyword
CHECK_DEADLOCK FALSE
