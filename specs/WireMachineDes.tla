--------------------------- MODULE WireMachineDes ---------------------------
(* I-layer for C02 / C04: the generated C deserializer as the code does it - one step per statement group of   *)
(* lang/c/templates/deserialization.j2:                                                                        *)
(*   * a cursor `off` (bits) over a buffer of `capb` bytes; every read is guarded by the capacity (implicit     *)
(*     zero extension), nothing is ever refused because the buffer is short;                                    *)
(*   * `offset.is_aligned_at_byte()` is a STATIC property of the set of possible offsets of a field: aligned     *)
(*     unsigned integers of <= 8 bits and aligned booleans are read as `buffer[off / 8] & mask`, everything      *)
(*     else goes through the zero-extending primitives (nunavutGetUxx / GetIxx / GetFxx / GetBits);             *)
(*   * bit arrays and (on little-endian targets) arrays of standard-width primitives are one bulk GetBits;       *)
(*   * a nested composite is a CALL of its own routine on `&buffer[off / 8]` with the remaining bytes (sealed)   *)
(*     or with the delimiter header's byte count (after `header > remaining => BAD_DELIMITER_HEADER`); the       *)
(*     caller advances by what the callee reports (sealed) or by the header (delimited);                        *)
(*   * every routine ends with `off = align8(off); *size = min(off, capacity_bits) / 8`.                         *)
(* The machine state is ONE record and Step is a FUNCTION on it, so the same definition serves the model         *)
(* checker (Next == m' = StepF(m)) and the trace specification (RunToEnd), which replays recorded inputs and      *)
(* compares the sequence of nested calls (pointer offset, size handed in, size handed back) with what a spy      *)
(* around the real generated routines recorded.                                                                 *)
(* TLC checks, for every type of the bounded universe and every input string over a small alphabet up to one      *)
(* byte more than the type needs:                                                                               *)
(*   Refines        the machine's result (error, value, consumed size) is DsdlWire!Des (I => P);                *)
(*   PointerInside  every pointer handed to a nested routine lies inside [buffer, buffer + size]  (C04: forming  *)
(*                  a pointer beyond one-past-the-end is undefined behaviour even if it is never dereferenced);   *)
(*   AssertsHold    the alignment assertions the templates emit (NUNAVUT_ASSERT) never fire;                    *)
(*   ReadsInside    no read touches a byte outside the frame's buffer.                                           *)
EXTENDS DsdlWire, TLC, Json

CONSTANTS Little,      \* target_endianness = little (bulk GetBits for standard-width primitive arrays)
          Level,
          Clamp,       \* TRUE: the call site clamps the byte index to the capacity (`&buffer[min(off / 8, capacity)]`)
          Bug          \* "none"; negative controls: "nomask" (aligned small uint read without the mask),
                       \*  "dynalign" (static alignment analysis forgets the variable part of arrays),
                       \*  "sealedhdr" (caller of a delimited type advances by what the callee consumed)

(* ------------------------------------------------ universe ------------------------------------------------ *)
Uint(w, s) == [k |-> "uint", w |-> w, sat |-> s]
Sint(w) == [k |-> "int", w |-> w]
Bool == [k |-> "bool"]
F16 == [k |-> "float", w |-> 16, sat |-> TRUE]
Void(w) == [k |-> "void", w |-> w]
FArr(e, n) == [k |-> "farr", n |-> n, e |-> e]
VArr(e, c) == [k |-> "varr", cap |-> c, wcap |-> c, e |-> e]
Comp(kind, fs, sealed, ext) == [k |-> kind, fields |-> fs, sealed |-> sealed, extent |-> ext]
Struct(fs) == Comp("struct", fs, TRUE, MaxBitsBody(Comp("struct", fs, TRUE, 0)))
StructD(fs, slack) == Comp("struct", fs, FALSE, MaxBitsBody(Comp("struct", fs, TRUE, 0)) + 8 * slack)
Union(fs) == Comp("union", fs, TRUE, MaxBitsBody(Comp("union", fs, TRUE, 0)))
UnionD(fs, slack) == Comp("union", fs, FALSE, MaxBitsBody(Comp("union", fs, TRUE, 0)) + 8 * slack)

Types1 == <<
    Struct(<<Uint(3, FALSE), Bool, Uint(5, TRUE)>>),                          \* aligned masked byte read, then unaligned
    Struct(<<Bool, Sint(9), Void(3), Uint(8, TRUE)>>),
    Struct(<<VArr(Bool, 3), Uint(8, TRUE)>>),                                 \* after a varr of bits the offset is never statically aligned
    Struct(<<VArr(Uint(8, TRUE), 2), Uint(7, FALSE), Bool>>),                 \* after a varr of bytes it always is
    Struct(<<Uint(8, TRUE), Struct(<<Uint(3, FALSE), Bool>>), Sint(5)>>),      \* sealed nested call
    Struct(<<Bool, StructD(<<Uint(8, TRUE), Sint(5)>>, 1), Uint(7, FALSE)>>),  \* delimited nested call
    Struct(<<VArr(Uint(8, TRUE), 2), Struct(<<Uint(8, TRUE)>>)>>),            \* a call site BEHIND a variable part: pointer beyond a short buffer
    Struct(<<Uint(16, TRUE), StructD(<<>>, 1)>>),                             \* empty delimited object
    Union(<<Uint(8, TRUE), VArr(Sint(3), 2), Struct(<<Bool, Uint(8, TRUE)>>)>>),
    Struct(<<UnionD(<<Uint(3, FALSE), Sint(16)>>, 1), Bool>>),
    Struct(<<F16, Bool>>),
    Struct(<<>>) >>
Types2 == Types1 \o <<
    Struct(<<FArr(Sint(16), 2), Bool>>),                                      \* bulk copy on little-endian targets
    Struct(<<Uint(1, TRUE), FArr(Struct(<<Uint(4, FALSE)>>), 2), Bool>>),      \* calls in a loop
    Struct(<<VArr(StructD(<<Uint(9, FALSE)>>, 0), 2), Void(1)>>),
    Struct(<<Uint(8, TRUE), Struct(<<Uint(8, TRUE), Struct(<<Sint(9)>>)>>)>>),  \* call inside a call
    Struct(<<VArr(Sint(3), 2), VArr(Bool, 2), Uint(8, FALSE)>>) >>
Types == IF Level = 1 THEN Types1 ELSE Types2

(* ------------------------------------------------ static offsets (modulo 8) ------------------------------------------------ *)
AlignedAt(R) == R = {0}
SumSets(A, B) == {(a + b) % 8 : a \in A, b \in B}
RECURSIVE LenMod(_), Times(_, _, _), UpTo(_, _, _, _)
Times(S, n, acc) == IF n = 0 THEN acc ELSE Times(S, n - 1, SumSets(acc, S))                              \* acc + n * S
UpTo(S, n, cur, acc) == IF n = 0 THEN acc \cup cur ELSE UpTo(S, n - 1, SumSets(cur, S), acc \cup cur)    \* UNION {cur + c * S : c \in 0..n}
LenMod(t) ==                                                   \* possible lengths of a field of type t, modulo 8
    IF IsPrim(t) THEN {PrimW(t) % 8}
    ELSE IF t.k = "farr" THEN Times(LenMod(t.e), t.n, {0})
    ELSE IF t.k = "varr" THEN (IF Bug = "dynalign" THEN {LenW(t) % 8} ELSE UpTo(LenMod(t.e), t.wcap, {LenW(t) % 8}, {}))
    ELSE {0}
ElemOffsets(R, e, cap) == UpTo(LenMod(e), IF cap = 0 THEN 0 ELSE cap - 1, R, {})     \* offsets of all elements of an array starting at R

ZeroCost(t) == Little /\ ((t.k \in {"uint", "int"} /\ t.w \in {8, 16, 32, 64}) \/ (t.k = "float" /\ t.w \in {32, 64}))
Bulk(e) == e.k = "bool" \/ (IsPrim(e) /\ e.k # "void" /\ ZeroCost(e))

(* ------------------------------------------------ work items ------------------------------------------------ *)
(* [op |-> "pad", a]; [op |-> "field", t, R]; [op |-> "tag"]; [op |-> "mk", kind, n, tag]; [op |-> "finish"]     *)
Item(op, t, R, a, n) == [op |-> op, t |-> t, R |-> R, a |-> a, n |-> n]
NoT == [k |-> "none"]
RECURSIVE StructWork(_, _, _, _)
StructWork(fs, i, R, acc) ==
    IF i > Len(fs) THEN acc
    ELSE LET f == fs[i]
             Rp == IF Align(f) = 8 THEN {0} ELSE R
             pad == IF i > 1 /\ Align(f) > 1 THEN <<Item("pad", NoT, {}, Align(f), 0)>> ELSE <<>>
         IN StructWork(fs, i + 1, SumSets(Rp, LenMod(f)), acc \o pad \o <<Item("field", f, Rp, 0, 0)>>)
BodyWork(t) ==
    IF MaxBitsBody(t) = 0 THEN <<Item("empty", NoT, {}, 0, 0)>>                      \* `*inout_buffer_size_bytes = 0U;`
    ELSE IF t.k = "struct" THEN StructWork(t.fields, 1, {0}, <<>>) \o <<Item("mkstruct", NoT, {}, 0, Len(t.fields)), Item("finish", NoT, {}, 0, 0)>>
    ELSE <<Item("tag", t, {0}, 0, 0), Item("finish", NoT, {}, 0, 0)>>
Repeat(x, n) == [i \in 1..n |-> x]

(* ------------------------------------------------ the machine ------------------------------------------------ *)
Frame(t, base, capb, hdr) == [t |-> t, base |-> base, capb |-> capb, off |-> 0, work |-> BodyWork(t), vals |-> <<>>, hdr |-> hdr]
InitM(t, bytes) ==
    [bits |-> BitsOfBytes(bytes), topcap |-> Len(bytes), frames |-> <<Frame(t, 0, Len(bytes), -1)>>, rc |-> "none", val |-> <<>>, consumed |-> -1,
     calls |-> <<>>, rets |-> <<>>, maxptr |-> 0, asserts |-> TRUE, inside |-> TRUE, steps |-> 0]
DoneM(m) == m.frames = <<>>

Top(m) == m.frames[Len(m.frames)]
FrameBits(m, f) == SubSeq(m.bits, 8 * f.base + 1, 8 * (f.base + f.capb))      \* what the routine may read: its `capacity_bytes` from its `buffer`
ByteAt(fb, i) == U(Slice(fb, 8 * i, 8))                                        \* buffer[i]

FailM(m, e) == [m EXCEPT !.rc = e, !.frames = <<>>,
                         !.rets = @ \o Repeat([rc |-> e, out |-> -1], Len(m.frames) - 1)]      \* every open nested call returns the error

(* the value and width read by `_deserialize_integer` / `_deserialize_boolean` / `_deserialize_float` / `_deserialize_void` at `off` *)
ReadPrim(t, R, fb, off, capb) ==
    IF t.k = "uint" THEN
        (IF AlignedAt(R) /\ t.w <= 8 THEN
            (IF off + t.w <= 8 * capb THEN <<IF Bug = "nomask" THEN ByteAt(fb, off \div 8) ELSE ByteAt(fb, off \div 8) % Pow2(t.w)>> ELSE <<0>>)
         ELSE LeafU("c", t, Slice(fb, off, t.w)))
    ELSE IF t.k = "int" THEN LeafS("c", t, Slice(fb, off, t.w))
    ELSE IF t.k = "bool" THEN
        (IF off < 8 * capb THEN <<ByteBit(ByteAt(fb, off \div 8), IF AlignedAt(R) THEN 0 ELSE off % 8)>> ELSE <<0>>)
    ELSE IF t.k = "float" THEN LeafF("c", t, Slice(fb, off, t.w))
    ELSE <<>>
(* does the direct byte access of the fast paths stay inside the buffer? (the guarded primitives always do) *)
ReadInside(t, R, off, capb) ==
    IF (t.k = "uint" /\ AlignedAt(R) /\ t.w <= 8 /\ off + t.w <= 8 * capb) \/ (t.k = "bool" /\ off < 8 * capb) THEN off \div 8 < capb ELSE TRUE
AssertOK(t, R, off) == (Align(t) = 8 => off % 8 = 0) /\ (AlignedAt(R) => off % 8 = 0)

BulkVals(e, fb, off, n) ==
    LET w == PrimW(e)
    IN [i \in 1..n |-> LET s == Slice(fb, off + (i - 1) * w, w)
                       IN IF e.k = "bool" THEN s ELSE IF e.k = "uint" THEN LeafU("c", e, s) ELSE IF e.k = "int" THEN LeafS("c", e, s) ELSE LeafF("c", e, s)]

PopN(vals, n) == SubSeq(vals, 1, Len(vals) - n)
LastN(vals, n) == SubSeq(vals, Len(vals) - n + 1, Len(vals))

StepF(m) ==
    LET d == Len(m.frames)
        f == m.frames[d]
        it == Head(f.work)
        rest == Tail(f.work)
        fb == FrameBits(m, f)
        Upd(g) == [m EXCEPT !.frames[d] = g, !.steps = @ + 1]
    IN
    IF it.op = "pad" THEN Upd([f EXCEPT !.off = PadUp(@, it.a), !.work = rest])
    ELSE IF it.op = "empty" THEN
        (* a type without any serialized content: consumes nothing, whatever it was given *)
        IF d = 1 THEN [m EXCEPT !.frames = <<>>, !.val = <<>>, !.consumed = 0, !.steps = @ + 1]
        ELSE LET c == m.frames[d - 1]
             IN [m EXCEPT !.frames = Append(SubSeq(m.frames, 1, d - 2),
                                            [c EXCEPT !.vals = Append(@, <<>>), !.off = @ + (IF f.hdr >= 0 THEN 8 * f.hdr ELSE 0)]),
                          !.rets = Append(@, [rc |-> "none", out |-> 0]), !.steps = @ + 1]
    ELSE IF it.op = "field" THEN
        LET t == it.t
            R == it.R
            ok == AssertOK(t, R, f.off)
        IN
        IF IsPrim(t) THEN
            [Upd([f EXCEPT !.off = @ + PrimW(t), !.work = rest, !.vals = Append(@, ReadPrim(t, R, fb, f.off, f.capb))])
                EXCEPT !.asserts = @ /\ ok, !.inside = @ /\ ReadInside(t, R, f.off, f.capb)]
        ELSE IF t.k = "farr" THEN
            (IF Bulk(t.e) THEN
                [Upd([f EXCEPT !.off = @ + t.n * PrimW(t.e), !.work = rest, !.vals = Append(@, BulkVals(t.e, fb, f.off, t.n))]) EXCEPT !.asserts = @ /\ ok]
             ELSE [Upd([f EXCEPT !.work = Repeat(Item("field", t.e, IF IsComposite(t.e) THEN {0} ELSE ElemOffsets(R, t.e, t.n), 0, 0), t.n)
                                          \o <<Item("mkseq", NoT, {}, 0, t.n)>> \o rest]) EXCEPT !.asserts = @ /\ ok])
        ELSE IF t.k = "varr" THEN
            LET lt == Uint(LenW(t), TRUE)
                cnt == U(BitsOfBytes(ReadPrim(lt, R, fb, f.off, f.capb)))
                o1 == f.off + LenW(t)
                R1 == SumSets(R, {LenW(t) % 8})
            IN IF cnt > t.cap THEN FailM(m, "bad_len")
               ELSE IF Bulk(t.e) THEN
                    [Upd([f EXCEPT !.off = o1 + cnt * PrimW(t.e), !.work = rest, !.vals = Append(@, [n |-> cnt, e |-> BulkVals(t.e, fb, o1, cnt)])])
                        EXCEPT !.asserts = @ /\ ok /\ (AlignedAt(R1) => o1 % 8 = 0), !.inside = @ /\ ReadInside(lt, R, f.off, f.capb)]
               ELSE [Upd([f EXCEPT !.off = o1,
                                   !.work = Repeat(Item("field", t.e, IF IsComposite(t.e) THEN {0} ELSE ElemOffsets(R1, t.e, t.wcap), 0, 0), cnt)
                                            \o <<Item("mkvarr", NoT, {}, 0, cnt)>> \o rest])
                        EXCEPT !.asserts = @ /\ ok /\ (AlignedAt(R1) => o1 % 8 = 0), !.inside = @ /\ ReadInside(lt, R, f.off, f.capb)]
        ELSE (* nested composite: the call *)
            LET hdr == IF t.sealed THEN -1 ELSE U(Slice(fb, f.off, 32))
                o1 == IF t.sealed THEN f.off ELSE f.off + 32
                remaining == f.capb - Min2(o1 \div 8, f.capb)
                idx == IF Clamp THEN Min2(o1 \div 8, f.capb) ELSE o1 \div 8
                size == IF t.sealed THEN remaining ELSE hdr
            IN IF ~t.sealed /\ hdr > remaining THEN FailM(m, "bad_header")
               ELSE [m EXCEPT !.frames = Append(SubSeq(m.frames, 1, d - 1), [f EXCEPT !.off = o1, !.work = rest]) \o <<Frame(t, f.base + idx, size, hdr)>>,
                              !.calls = Append(@, [at |-> f.base + idx, size |-> size]),
                              !.maxptr = Max2(@, f.base + idx),
                              !.asserts = @ /\ ok /\ o1 % 8 = 0,
                              !.steps = @ + 1]
    ELSE IF it.op = "tag" THEN
        LET t == it.t
            tt == Uint(TagW(t), TRUE)
            tag == U(BitsOfBytes(ReadPrim(tt, {0}, fb, f.off, f.capb)))
        IN IF tag >= Len(t.fields) THEN FailM(m, "bad_tag")
           ELSE [Upd([f EXCEPT !.off = @ + TagW(t),
                               !.work = <<Item("field", t.fields[tag + 1], {0}, 0, 0), Item("mkunion", NoT, {}, 0, tag)>> \o rest])
                    EXCEPT !.inside = @ /\ ReadInside(tt, {0}, f.off, f.capb)]
    ELSE IF it.op = "mkseq" THEN Upd([f EXCEPT !.work = rest, !.vals = Append(PopN(@, it.n), LastN(@, it.n))])
    ELSE IF it.op = "mkstruct" THEN Upd([f EXCEPT !.work = rest, !.vals = Append(PopN(@, it.n), LastN(@, it.n))])
    ELSE IF it.op = "mkvarr" THEN Upd([f EXCEPT !.work = rest, !.vals = Append(PopN(@, it.n), [n |-> it.n, e |-> LastN(@, it.n)])])
    ELSE IF it.op = "mkunion" THEN Upd([f EXCEPT !.work = rest, !.vals = Append(PopN(@, 1), [tag |-> it.n, v |-> @[Len(@)]])])
    ELSE (* finish *)
        LET o == PadUp(f.off, 8)
            used == Min2(o, 8 * f.capb) \div 8
            v == f.vals[1]
        IN IF d = 1 THEN [m EXCEPT !.frames = <<>>, !.val = v, !.consumed = used, !.steps = @ + 1]
           ELSE LET c == m.frames[d - 1]
                    adv == IF f.hdr >= 0 /\ Bug # "sealedhdr" THEN 8 * f.hdr ELSE 8 * used
                IN [m EXCEPT !.frames = Append(SubSeq(m.frames, 1, d - 2), [c EXCEPT !.vals = Append(@, v), !.off = @ + adv]),
                             !.rets = Append(@, [rc |-> "none", out |-> used]), !.steps = @ + 1]

RECURSIVE RunToEnd(_)
RunToEnd(m) == IF DoneM(m) THEN m ELSE RunToEnd(StepF(m))

(* ------------------------------------------------ model checking ------------------------------------------------ *)
VARIABLES ti, m
vars == <<ti, m>>

Alphabet(need) == IF need <= 2 THEN {0, 1, 2, 3, 128, 255} ELSE IF need <= 4 THEN {0, 1, 2, 255} ELSE IF need <= 6 THEN {0, 3, 255} ELSE {0, 3}
Inputs(t) == LET need == BufBytes(t) IN UNION {[1..n -> Alphabet(need)] : n \in 0..(need + 1)}

Idle == [frames |-> <<>>, rc |-> "idle"]
Init == ti = 0 /\ m = Idle
PickType == ti = 0 /\ ti' \in 1..Len(Types) /\ UNCHANGED m
PickInput == ti # 0 /\ m = Idle /\ \E bytes \in Inputs(Types[ti]) : m' = InitM(Types[ti], bytes) /\ UNCHANGED ti
Step == ti # 0 /\ m # Idle /\ ~DoneM(m) /\ m' = StepF(m) /\ UNCHANGED ti
Next == PickType \/ PickInput \/ Step
Spec == Init /\ [][Next]_vars

Running == ti # 0 /\ m # Idle
Refines ==
    (Running /\ DoneM(m)) =>
        LET T == Types[ti]
            e == Des("c", T, m.bits)
        IN /\ m.rc = e.err
           /\ e.err = "none" => (m.val = e.val /\ m.consumed = Consumed(T, m.bits, e))
PointerInside == Running => m.maxptr <= m.topcap
AssertsHold == Running => m.asserts
ReadsInside == Running => m.inside
CallsBalanced == (Running /\ DoneM(m)) => Len(m.calls) = Len(m.rets)
(* a nested routine never reports more than it was given, and is never given more than its caller has *)
SizesNested == Running => \A i \in 1..Len(m.rets) : m.rets[i].out <= m.topcap
=============================================================================
