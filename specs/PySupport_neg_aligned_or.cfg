SPECIFICATION Spec
CONSTANTS
  Kind = "ser"
  MaxCalls = 3
  Level = 1
  FragMode = "join"
  Bug = "aligned_or"
  Emit = FALSE
INVARIANT RefinesSer
CHECK_DEADLOCK FALSE
