---------------------------- MODULE GenSiblingsP ----------------------------
(* P-layer for C10: "the file generated for a type depends only on that type, the types it refers to,    *)
(* the templates and the options".                                                                       *)
(*                                                                                                       *)
(* The most general system with that property is a system whose output is a FUNCTION of the key          *)
(*    key = <<type, what it (transitively) refers to, templates, options>>                               *)
(* and of nothing else: which function is left open (any template layout, any naming scheme is fine).     *)
(* The property is therefore a memo: the first answer given for a key is remembered; every later answer   *)
(* for the same key -- in another company of types, another processing order, a later run of the same     *)
(* interpreter, with a reused or a fresh LanguageContext / generator object -- must be the same answer.    *)
(* Only this module decides VIOLATION (clause sib.digest).                                               *)
EXTENDS Naturals, Sequences, FiniteSets

(* memo : a function key -> content (content is a digest string in the T-layer, an abstract file in the  *)
(* I-layer).                                                                                            *)
EmptyMemo == [k \in {} |-> 0]

Judge(memo, key, content) == IF key \in DOMAIN memo THEN memo[key] = content ELSE TRUE

Learn(memo, key, content) ==
    IF key \in DOMAIN memo THEN memo
    ELSE [k \in (DOMAIN memo) \cup {key} |-> IF k = key THEN content ELSE memo[k]]

(* ------------------------------------------------------------------------------------------------------ *)
(* Operators shared by the I-layer and the T-layer (implementation-shaped; they never decide VIOLATION).  *)
(* LimitEmptyLines(n) as a state machine over "is this line empty" flags: the counter c is the object's    *)
(* _empty_line_count.  A line is dropped when the counter exceeds n after counting it.                   *)
LimCount(c, isEmpty) == IF isEmpty THEN c + 1 ELSE 0
LimKeeps(n, c, isEmpty) == ~(LimCount(c, isEmpty) > n)

(* The same machine over a run-length encoded file: rle is a sequence of <<e, k>> (e = 1: k empty lines,   *)
(* e = 0: k non-empty lines).  Result: number of lines kept and the final counter.                         *)
Min(a, b) == IF a < b THEN a ELSE b
Monus(a, b) == IF a > b THEN a - b ELSE 0

RECURSIVE LimRLE(_, _, _, _, _)
LimRLE(n, rle, i, c, kept) ==
    IF i > Len(rle) THEN [kept |-> kept, cnt |-> c]
    ELSE LET e == rle[i][1]
             k == rle[i][2]
         IN IF e = 1 THEN LimRLE(n, rle, i + 1, c + k, kept + Min(k, Monus(n, c)))
            ELSE LimRLE(n, rle, i + 1, (IF k > 0 THEN 0 ELSE c), kept + k)
=============================================================================
