SPECIFICATION Spec
CHECK_DEADLOCK FALSE
CONSTANTS
  Bug = "none"
  Writer = "atomic"
  Size = "q"
INVARIANT TypeOK
INVARIANT PHolds
INVARIANT ReplayAgrees
