SPECIFICATION Spec
CONSTANTS
  NTypes = 4
  MaxRuns = 4
  Shapes <- ShapesMixed
  Limits = {0, 1, 2, 3}
  DefIds = {1, 2, 3}
  OmitVals = {FALSE, TRUE}
  Modes = {"fresh", "lctx", "gen"}
  ResetLimiter = TRUE
  IdentityDepKey = TRUE
  VolatileUniq = TRUE
  FreshModule = TRUE
  Words = {1, 2}
  FullStropKey = TRUE
  Docs = {0, 1}
  PureFilters = TRUE
  Confs = {0, 1}
  PureDerivedNames = TRUE
INVARIANT Emit
CHECK_DEADLOCK FALSE
