SPECIFICATION Spec
CONSTANTS
  Profile = "ifuses"
  MaxW = 3
  MaxWc = 0
  MaxDepth = 0
  Tights = {FALSE}
  EmitOpen = FALSE
INVARIANT ChainRefines
INVARIANT Emit
CHECK_DEADLOCK FALSE
