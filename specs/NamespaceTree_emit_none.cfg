SPECIFICATION Spec
CONSTANTS
  Roots <- RootsR
  Names <- NamesPrefix
  Shorts <- ShortsT
  TwoVer <- TwoVerT
  MaxDepth = 2
  MaxTypes = 2
  StropMode = "none"
  GenNsChoices = {TRUE}
  Spellings = {"rel"}
  CanonNs = FALSE
  SupportFromRootParent = FALSE
INVARIANT Emit
CHECK_DEADLOCK FALSE
