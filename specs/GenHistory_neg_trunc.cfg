SPECIFICATION Spec
CONSTANTS
  GenFiles = {1, 3}
  OtherFiles = {}
  Modes = {292, 420}
  Variants = {0, 2}
  ChmodGate = TRUE
  CopyGate = TRUE
  Truncates = FALSE
  PPOrder = "program_first"
  Privileged = FALSE
  OptsSel = "all"
  EnvOn = TRUE
  Record = FALSE
  MaxSteps = 0
INVARIANT RunEndOK
CHECK_DEADLOCK FALSE
