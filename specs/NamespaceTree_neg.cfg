SPECIFICATION Spec
CONSTANTS
  Roots <- RootsR
  Names <- NamesFoldPrefix
  Shorts <- ShortsT
  TwoVer <- TwoVerT
  MaxDepth = 1
  MaxTypes = 2
  StropMode = "prefix"
  GenNsChoices = {FALSE}
  Spellings = {"rel"}
  CanonNs = FALSE
  SupportFromRootParent = FALSE
INVARIANT RefinesNoFold
CHECK_DEADLOCK FALSE
