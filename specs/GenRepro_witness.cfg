SPECIFICATION Spec
CONSTANTS
  MaxTypes = 3
  MaxNested = 2
  Langs = {"c", "cpp", "py", "html"}
  Audits = {FALSE}
  OpenSets = {{"gzip_mtime"}, {"ns_time"}, {"model_abspath"}, {"assert_abspath"}, {"model_cache"}, {"pp_carry"}, {"include_order"}, {"html_order"}, {"filter_owner"}}
  SortedWalk = FALSE
  Vary = {"clock", "loc", "cwd"}
INVARIANT EmitWitness
INVARIANT PathsStable
CHECK_DEADLOCK FALSE
