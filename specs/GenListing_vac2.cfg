SPECIFICATION Spec
CONSTANTS
  Langs = {"c", "html"}
  Exts = {"def"}
  Stems = {"def"}
  SupTpls = {FALSE, TRUE}
  NsVals = {FALSE}
  Shapes = {"plain"}
  Wipes = FALSE
  PFiles = {}
  MaxLo = 1
  MaxLi = 1
  MaxDry = 1
  MaxRun = 1
  Linear = FALSE
  QuickOnly = FALSE
  FwdOmitToList = TRUE
  ListDeps = TRUE
  OwnByPrefix = FALSE
  ListUserSup = TRUE
INVARIANT NeverPopulatedPassive
CHECK_DEADLOCK FALSE
