------------------------------ MODULE PySupport ------------------------------
(* I-layer for the Serializer / Deserializer / ZeroExtendingBuffer classes of nunavut_support.py, as the code does *)
(* it, and the bounded check that it refines PySupportP over ALL call histories up to MaxCalls.                     *)
(*   Serializer: one numpy byte buffer of capacity+1 bytes ("_EXTRA_BUFFER_CAPACITY_BYTES"), objects are VIEWS        *)
(*     [off, len, bit] into it (fork_bytes slices the parent's buffer), aligned methods ASSIGN whole bytes,          *)
(*     unaligned methods run the loop of add_unaligned_bytes (OR into the current byte, assign the next one) and      *)
(*     backtrack, add_unaligned_bit ORs one bit, pad_to_alignment is a loop of add_unaligned_bit(False).             *)
(*   Deserializer: ZeroExtendingBuffer over an explicit FRAGMENT LIST (FragMode "join": fragments are concatenated    *)
(*     when the object is made, as the code does today; "walk": every access walks the fragment list, what the        *)
(*     TODO in the code announces), get_byte / get_unsigned_slice with zero extension, the per-byte loop of           *)
(*     fetch_unaligned_bytes, _unsigned_from_bytes with the mask on the last byte, fork_bytes as a view.             *)
(* Bug # "none" selects a negative control.  Emit = TRUE keeps the history with the expected abstract outcome of      *)
(* every step and prints it (spec -> code).                                                                          *)
EXTENDS PySupportP, Json

CONSTANTS Kind,      \* "ser" | "des"
          MaxCalls,
          Level,     \* 1 quick, 2 thorough, 3 rich alphabet for simulation
          FragMode,  \* "join" | "walk"
          Bug,       \* "none" | "aligned_or" | "unaligned_clear" | "walk_nozx" | "fork_noclamp" | "getbyte_off1"
          Emit       \* BOOLEAN

VARIABLES ps,    \* P state
          is,    \* I state
          is1,   \* deserializer: the same machine over the unfragmented input (fragmentation independence)
          n,     \* calls so far
          last,  \* outcome of the last call in the three machines
          hist   \* Emit: the calls with their expected outcomes
vars == <<ps, is, is1, n, last, hist>>

MaxObjs == IF Level \in {1, 4} THEN 2 ELSE 3

(* ------------------------------------------------ byte arithmetic ------------------------------------------------ *)
Or8(x, y) ==
    LET b(i) == IF ByteBit(x, i) + ByteBit(y, i) > 0 THEN 1 ELSE 0
    IN b(0) + 2 * b(1) + 4 * b(2) + 8 * b(3) + 16 * b(4) + 32 * b(5) + 64 * b(6) + 128 * b(7)
Shl8(x, k) == (x * Pow2(k)) % 256
Shr8(x, k) == x \div Pow2(k)

(* ------------------------------------------------ serializer (I) ------------------------------------------------ *)
IRd(S, o, idx) == IF idx >= S.objs[o].len THEN 0 ELSE S.mem[S.objs[o].off + idx + 1]
IWr(S, o, idx, val) == IF idx >= S.objs[o].len THEN [S EXCEPT !.oob = TRUE]              \* IndexError in the real code
                       ELSE [S EXCEPT !.mem[S.objs[o].off + idx + 1] = val]
IAdv(S, o, d) == [S EXCEPT !.objs[o].bit = @ + d]
IBo(S, o) == S.objs[o].bit \div 8

RECURSIVE IAssign(_, _, _, _, _)          \* self._buf[at : at + len(bs)] = bs
IAssign(S, o, at, bs, i) ==
    IF i > Len(bs) THEN S
    ELSE IAssign(IWr(S, o, at + i - 1, IF Bug = "aligned_or" THEN Or8(IRd(S, o, at + i - 1), bs[i]) ELSE bs[i]), o, at, bs, i + 1)

RECURSIVE IUnal(_, _, _, _, _)            \* add_unaligned_bytes
IUnal(S, o, bs, left, i) ==
    IF i > Len(bs) THEN S
    ELSE LET bo == IBo(S, o)
             b == bs[i]
             S1 == IWr(S, o, bo, IF Bug = "unaligned_clear" THEN Shl8(b, left) ELSE Or8(IRd(S, o, bo), Shl8(b, left)))
             S2 == IAdv(S1, o, 8)
             S3 == IWr(S2, o, bo + 1, Shr8(b, 8 - left))
         IN IUnal(S3, o, bs, left, i + 1)

RECURSIVE IPad(_, _, _)                   \* while self._bit_offset % n != 0: self.add_unaligned_bit(False)
IPad(S, o, a) ==
    IF S.objs[o].bit % a = 0 THEN S
    ELSE IPad(IAdv(IWr(S, o, IBo(S, o), Or8(IRd(S, o, IBo(S, o)), 0)), o, 1), o, a)

ISerApply(S, c) ==
    LET o == c.o
        ob == S.objs[o]
        bo == ob.bit \div 8
        w == WBits(c)
        bs == BytesOfBits(w)
        back == 8 * Len(bs) - Len(w)
    IN  IF c.m = "uneg" THEN [st |-> S, err |-> "ValueError"]
        ELSE IF c.m = "skip" THEN [st |-> IAdv(S, o, c.n), err |-> ""]
        ELSE IF c.m = "pad" THEN [st |-> IPad(S, o, c.n), err |-> ""]
        ELSE IF c.m = "fork" THEN
            IF ob.bit % 8 # 0 THEN [st |-> S, err |-> "ValueError"]
            ELSE LET avail == PMax(ob.len - bo, 0)                  \* len(self._buf[self._bit_offset // 8 :])
                 IN IF avail < c.n + 1 THEN [st |-> S, err |-> "ValueError"]
                    ELSE [st |-> [S EXCEPT !.objs = Append(@, [off |-> ob.off + bo, len |-> c.n + 1, bit |-> 0])], err |-> ""]
        ELSE IF c.m = "bit" THEN
            [st |-> IAdv(IWr(S, o, bo, Or8(IRd(S, o, bo), Shl8(w[1], ob.bit % 8))), o, 1), err |-> ""]
        ELSE IF c.k = "ow" THEN [st |-> IAdv(IAssign(S, o, bo, bs, 1), o, Len(w)), err |-> ""]
        ELSE [st |-> IAdv(IUnal(S, o, bs, ob.bit % 8, 1), o, 0 - back), err |-> ""]

IView(S, o) ==
    LET ob == S.objs[o]
        hi == PMin(ob.off + ((ob.bit + 7) \div 8), PMin(ob.off + ob.len, Len(S.mem)))
    IN SubSeq(S.mem, ob.off + 1, hi)

(* ----------------------------------------------- deserializer (I) ----------------------------------------------- *)
RECURSIVE Join(_, _)
Join(frags, i) == IF i > Len(frags) THEN <<>> ELSE frags[i] \o Join(frags, i + 1)
Contig(frags) == IF Len(frags) = 1 THEN frags[1] ELSE Join(frags, 1)
Total(frags) == Len(Join(frags, 1))

RECURSIVE WalkByte(_, _, _)
WalkByte(frags, i, idx) ==
    IF i > Len(frags) THEN 0
    ELSE IF idx < Len(frags[i]) THEN frags[i][idx + 1]
    ELSE WalkByte(frags, i + 1, idx - Len(frags[i]))

GetByte(frags, idx0) ==
    LET idx == IF Bug = "getbyte_off1" /\ Len(frags) > 1 THEN idx0 + 1 ELSE idx0
    IN IF FragMode = "join" THEN (LET b == Contig(frags) IN IF idx < Len(b) THEN b[idx + 1] ELSE 0)
       ELSE WalkByte(frags, 1, idx)

RECURSIVE WalkSlice(_, _, _, _)           \* l, r relative to the start of fragment i
WalkSlice(frags, i, l, r) ==
    IF i > Len(frags) THEN Zeros(r - l)
    ELSE LET F == frags[i]
             m == Len(F)
         IN IF l >= m /\ i < Len(frags) THEN WalkSlice(frags, i + 1, l - m, r - m)
            ELSE IF l >= m THEN (IF Bug = "walk_nozx" THEN <<>> ELSE Zeros(r - l))
            ELSE IF Bug = "walk_nozx" /\ i = Len(frags) THEN SubSeq(F, l + 1, PMin(r, m))
            ELSE SubSeq(F, l + 1, PMin(r, m)) \o (IF r > m THEN WalkSlice(frags, i + 1, 0, r - m) ELSE <<>>)

GetSlice(frags, l, r) ==
    IF FragMode = "join"
    THEN LET b == Contig(frags)
             out == SubSeq(b, l + 1, PMin(r, Len(b)))              \* slicing never raises
         IN out \o Zeros((r - l) - Len(out))                         \* implicit zero extension rule
    ELSE WalkSlice(frags, 1, l, r)

RECURSIVE SubFrags(_, _, _, _)            \* the fragments (pieces) that cover bytes l..r-1
SubFrags(frags, i, l, r) ==
    IF i > Len(frags) \/ l >= r THEN <<>>
    ELSE LET m == Len(frags[i])
         IN IF l >= m THEN SubFrags(frags, i + 1, l - m, r - m)
            ELSE <<SubSeq(frags[i], l + 1, PMin(r, m))>> \o SubFrags(frags, i + 1, 0, r - m)

RECURSIVE DUnal(_, _, _, _, _)            \* the loop of fetch_unaligned_bytes (cursor not byte-aligned)
DUnal(frags, bo, right, cnt, i) ==
    IF i > cnt THEN <<>>
    ELSE <<Or8(Shr8(GetByte(frags, bo + i - 1), right), Shl8(GetByte(frags, bo + i), 8 - right))>> \o DUnal(frags, bo, right, cnt, i + 1)

DFetchUnalBytes(ob, cnt) ==
    IF cnt > 0 THEN (IF ob.bit % 8 # 0 THEN DUnal(ob.frags, ob.bit \div 8, ob.bit % 8, cnt, 1)
                     ELSE GetSlice(ob.frags, ob.bit \div 8, (ob.bit \div 8) + cnt))
    ELSE <<>>

IsStd(c) == c.std = 1 /\ c.k = "ow" /\ c.n \in {8, 16, 32, 64}

IDesApply(S, c) ==
    LET o == c.o
        ob == S.objs[o]
        bo == ob.bit \div 8
        tot == Total(ob.frags)
        adv(d) == [S EXCEPT !.objs[o].bit = @ + d]
        nb == (c.n + 7) \div 8
        ubits == IF IsStd(c) THEN BitsOfBytes([j \in 1..(c.n \div 8) |-> GetByte(ob.frags, bo + j - 1)])     \* fetch_aligned_u8 ... u64
                 ELSE IF c.k = "ow" THEN Take(BitsOfBytes(GetSlice(ob.frags, bo, bo + nb)), c.n)          \* _unsigned_from_bytes
                 ELSE Take(BitsOfBytes(DFetchUnalBytes(ob, nb)), c.n)
    IN  IF c.m = "neg" THEN [st |-> S, err |-> "ValueError", res |-> <<>>]
        ELSE IF c.m = "skip" THEN [st |-> adv(c.n), err |-> "", res |-> <<>>]
        ELSE IF c.m = "pad" THEN [st |-> adv((c.n - (ob.bit % c.n)) % c.n), err |-> "", res |-> <<>>]
        ELSE IF c.m = "fork" THEN
            IF ob.bit % 8 # 0 THEN [st |-> S, err |-> "ValueError", res |-> <<>>]
            ELSE LET rem == PMax(8 * tot - ob.bit, 0) \div 8
                     fo == IF Bug = "fork_noclamp" THEN bo ELSE PMin(bo, tot)
                 IN IF rem < c.n \/ fo + c.n > tot THEN [st |-> S, err |-> "ValueError", res |-> <<>>]
                    ELSE [st |-> [S EXCEPT !.objs = Append(@, [frags |-> IF FragMode = "join" THEN <<SubSeq(Contig(ob.frags), fo + 1, fo + c.n)>>
                                                                          ELSE SubFrags(ob.frags, 1, fo, fo + c.n),
                                                                bit |-> 0])], err |-> "", res |-> <<>>]
        ELSE IF c.m = "u" THEN [st |-> adv(c.n), err |-> "", res |-> Take(ubits, 64)]
        ELSE IF c.m = "s" THEN [st |-> adv(c.n), err |-> "", res |-> SignExtTo(ubits, 64)]
        ELSE IF c.m = "bit" THEN [st |-> adv(1), err |-> "", res |-> <<ByteBit(GetByte(ob.frags, bo), ob.bit % 8)>>]
        ELSE IF c.m \in {"bytes", "arr"} THEN
            [st |-> adv(8 * c.n), err |-> "",
             res |-> BitsOfBytes(IF c.k = "ow" THEN GetSlice(ob.frags, bo, bo + c.n) ELSE DFetchUnalBytes(ob, c.n))]
        ELSE \* "bits"
            [st |-> adv(c.n), err |-> "",
             res |-> Take(BitsOfBytes(IF c.k = "ow" THEN GetSlice(ob.frags, bo, bo + nb) ELSE DFetchUnalBytes(ob, nb)), c.n)]

(* --------------------------------------------------- alphabets --------------------------------------------------- *)
Call(o, m, nn, k, v) == [o |-> o, m |-> m, n |-> nn, k |-> k, v |-> v, std |-> 0, fl |-> 0]
StdCall(o, m, nn) == [o |-> o, m |-> m, n |-> nn, k |-> "ow", v |-> <<>>, std |-> 1, fl |-> 0]

A5 == BitsOfBytes(<<165>>)
Pat16 == BitsOfBytes(<<165, 195>>)

SerValues == IF Level = 1 THEN {Ones(16), Pat16} ELSE {Ones(16), Pat16, Zeros(16)}
SerWidths == IF Level = 1 THEN {3, 8, 12} ELSE IF Level = 2 THEN {1, 3, 8, 12, 16} ELSE {1, 2, 3, 5, 7, 8, 9, 12, 15, 16}
SerBytes == IF Level = 1 THEN {<<>>, A5, Ones(8) \o Zeros(8)} ELSE {<<>>, A5, Ones(8), Ones(8) \o Zeros(8), Pat16}
SerBools == IF Level = 1 THEN {<<>>, <<1, 0, 1>>, Ones(9)} ELSE {<<>>, <<1>>, <<1, 0, 1>>, Ones(8), Ones(9), <<0, 1, 1, 0, 1, 0, 0, 1, 1, 1, 0>>}
SerSkips == IF Level = 1 THEN {1, 8} ELSE {0, 1, 3, 8, 16}
SerPads == IF Level = 1 THEN {8} ELSE {1, 8, 16}
SerCaps == IF Level = 1 THEN {3} ELSE IF Level = 2 THEN {0, 4} ELSE {6}

SerCallsOf(st, o) ==
    LET al == st.objs[o].cur % 8 = 0
        ks == IF al THEN {"ow", "or"} ELSE {"or"}          \* "the current bit offset must be byte-aligned" is a precondition of the aligned methods
    IN  {Call(o, "skip", s, "or", <<>>) : s \in SerSkips}
        \cup {Call(o, "pad", a, "or", <<>>) : a \in SerPads}
        \cup (IF Len(st.objs) < MaxObjs THEN {Call(o, "fork", f, "or", <<>>) : f \in {0, 1, 2}} ELSE {})
        \cup {Call(o, "u", w, k, v) : w \in SerWidths, k \in ks, v \in SerValues}
        \cup {Call(o, "uneg", 8, k, <<>>) : k \in ks}
        \cup {Call(o, "bit", 1, "or", <<b>>) : b \in {0, 1}}
        \cup {Call(o, "bytes", Len(v) \div 8, k, v) : k \in ks, v \in SerBytes}
        \cup {Call(o, "bits", Len(v), k, v) : k \in ks, v \in SerBools}
SerCalls(st) == UNION {SerCallsOf(st, o) : o \in 1..Len(st.objs)}

DesWidths == IF Level = 1 THEN {3, 12} ELSE IF Level \in {2, 4} THEN {3, 8, 12} ELSE {1, 2, 3, 5, 7, 8, 9, 12, 15, 16, 24}
DesCounts == IF Level = 1 THEN {0, 2} ELSE IF Level \in {2, 4} THEN {0, 1, 2} ELSE {0, 1, 2, 3}
DesBitCounts == IF Level = 1 THEN {0, 9} ELSE IF Level \in {2, 4} THEN {0, 3, 9} ELSE {0, 1, 3, 8, 9, 11}
DesSkips == IF Level \in {1, 2, 4} THEN {1, 8} ELSE {0, 1, 3, 8, 16}
DesPads == IF Level \in {1, 2, 4} THEN {8} ELSE {1, 8, 16}
DesStd == IF Level = 1 THEN {16} ELSE {8, 16}

DesCallsOf(st, o) ==
    LET al == st.objs[o].cur % 8 = 0
        ks == IF al THEN {"ow", "or"} ELSE {"or"}
    IN  {Call(o, "skip", s, "or", <<>>) : s \in DesSkips}
        \cup {Call(o, "neg", 0, "or", <<>>)}
        \cup {Call(o, "pad", a, "or", <<>>) : a \in DesPads}
        \cup (IF Len(st.objs) < MaxObjs THEN {Call(o, "fork", f, "or", <<>>) : f \in {0, 1, 2}} ELSE {})
        \cup {Call(o, "u", w, k, <<>>) : w \in DesWidths, k \in ks}
        \cup (IF al THEN {StdCall(o, "u", w) : w \in DesStd} \cup {StdCall(o, "s", w) : w \in DesStd} ELSE {})
        \cup {Call(o, "s", w, k, <<>>) : w \in DesWidths \ {1}, k \in ks}
        \cup {Call(o, "bit", 1, "or", <<>>)}
        \cup {Call(o, "bytes", cn, k, <<>>) : cn \in DesCounts, k \in ks}
        \cup {Call(o, "bits", cn, k, <<>>) : cn \in DesBitCounts, k \in ks}
DesCalls(st) == UNION {DesCallsOf(st, o) : o \in 1..Len(st.objs)}

(* inputs: all byte strings up to MaxData bytes (Level 1: 2, Level 2: 3, Level 4: 4) over {00, FF, A5}, ALL ways of    *)
(* cutting them into fragments, with at most one empty fragment anywhere (Levels 1, 2) / an empty fragment in any       *)
(* subset of the gaps (Level 4, histories of two calls)                                                               *)
Symbols == {0, 255, 165}
MaxData == IF Level = 1 THEN 2 ELSE IF Level = 2 THEN 3 ELSE 4
DataSet == IF Level = 3 THEN {<<>>, <<165>>, <<255, 0, 195>>, <<165, 255, 0, 195, 90, 129, 60, 255>>}
           ELSE UNION {[1..L -> Symbols] : L \in 0..MaxData}
RECURSIVE Comps(_)
Comps(d) == IF Len(d) = 0 THEN {<<>>}
            ELSE UNION {{<<SubSeq(d, 1, j)>> \o rest : rest \in Comps(SubSeq(d, j + 1, Len(d)))} : j \in 1..Len(d)}
RECURSIVE Interleave(_, _, _)             \* an empty fragment in every gap g (0..Len(fs)) with g \in G
Interleave(fs, G, g) ==
    (IF g \in G THEN <<<<>>>> ELSE <<>>) \o (IF g >= Len(fs) THEN <<>> ELSE <<fs[g + 1]>> \o Interleave(fs, G, g + 1))
GapSets(fs) == IF Level \in {1, 2} THEN {{}} \cup {{g} : g \in 0..Len(fs)} ELSE SUBSET (0..Len(fs))
Frags(d) == UNION {{Interleave(fs, G, 0) : G \in GapSets(fs)} : fs \in Comps(d)}

(* --------------------------------------------------- the machine --------------------------------------------------- *)
NoLast == [ref |-> TRUE, frag |-> TRUE]       \* booleans only: the outcome itself would multiply the states

Init ==
    /\ n = 0 /\ last = NoLast /\ hist = <<>>
    /\ IF Kind = "ser"
       THEN \E cap \in SerCaps :
              /\ ps = SNew(cap)
              /\ is = [mem |-> [i \in 1..(cap + 1) |-> 0], objs |-> <<[off |-> 0, len |-> cap + 1, bit |-> 0]>>, oob |-> FALSE]
              /\ is1 = 0
       ELSE \E d \in DataSet : \E fr \in Frags(d) :
              /\ ps = DNew(BitsOfBytes(d))
              /\ is = [objs |-> <<[frags |-> fr, bit |-> 0]>>]
              /\ is1 = [objs |-> <<[frags |-> <<d>>, bit |-> 0]>>]

SerExpect(st, c, r) ==      \* what the driver compares after the call
    [o |-> c.o, m |-> c.m, n |-> c.n, k |-> c.k, v |-> c.v, std |-> c.std, err |-> r.err,
     curs |-> [j \in 1..Len(r.st.objs) |-> r.st.objs[j].cur], views |-> [j \in 1..Len(r.st.objs) |-> SView(r.st, j)]]
DesExpect(st, c, r) ==
    [o |-> c.o, m |-> c.m, n |-> c.n, k |-> c.k, std |-> c.std, err |-> r.err, res |-> r.res,
     curs |-> [j \in 1..Len(r.st.objs) |-> r.st.objs[j].cur], tots |-> [j \in 1..Len(r.st.objs) |-> Len(r.st.objs[j].data)]]

SerStep(c) ==
    /\ SDefined(ps, c)
    /\ LET p == SApply(ps, c)
           i == ISerApply(is, c)
       IN /\ ps' = p.st /\ is' = i.st /\ is1' = is1
          /\ last' = [ref |-> p.err = i.err, frag |-> TRUE]
          /\ hist' = IF Emit THEN Append(hist, SerExpect(ps, c, p)) ELSE hist
DesStep(c) ==
    /\ DDefined(ps, c)
    /\ LET p == DApply(ps, c)
           i == IDesApply(is, c)
           j == IDesApply(is1, c)
       IN /\ ps' = p.st /\ is' = i.st /\ is1' = j.st
          /\ last' = [ref |-> p.err = i.err /\ p.res = i.res, frag |-> i.err = j.err /\ i.res = j.res]
          /\ hist' = IF Emit THEN Append(hist, DesExpect(ps, c, p)) ELSE hist

Next ==
    /\ n < MaxCalls
    /\ n' = n + 1
    /\ IF Kind = "ser" THEN \E c \in SerCalls(ps) : SerStep(c) ELSE \E c \in DesCalls(ps) : DesStep(c)
Spec == Init /\ [][Next]_vars

(* -simulate: ONE randomly chosen defined call per step (the successor set of Next over the rich alphabet is large) *)
SimNext ==
    /\ n < MaxCalls
    /\ n' = n + 1
    /\ IF Kind = "ser" THEN SerStep(RandomElement({c \in SerCalls(ps) : SDefined(ps, c)}))
       ELSE DesStep(RandomElement({c \in DesCalls(ps) : DDefined(ps, c)}))
SimSpec == Init /\ [][SimNext]_vars

(* --------------------------------------------------- properties --------------------------------------------------- *)
MemBits == BitsOfBytes(is.mem)
RefinesSer ==
    Kind = "ser" =>
        /\ last.ref
        /\ ~is.oob                                                                   \* no index beyond the buffer of the object
        /\ Len(ps.objs) = Len(is.objs)
        /\ \A o \in 1..Len(ps.objs) : /\ ps.objs[o].cur = is.objs[o].bit
                                      /\ ps.objs[o].base = 8 * is.objs[o].off
                                      /\ ViewMatches(SView(ps, o), BitsOfBytes(IView(is, o)))
        /\ \A i \in 1..Len(ps.store) : ps.store[i] = X \/ ps.store[i] = MemBits[i]      \* every bit, addressed or not
RefinesDes ==
    Kind = "des" =>
        /\ last.ref
        /\ Len(ps.objs) = Len(is.objs)
        /\ \A o \in 1..Len(ps.objs) : /\ ps.objs[o].cur = is.objs[o].bit
                                      /\ Len(ps.objs[o].data) = 8 * Total(is.objs[o].frags)
FragIndep ==
    Kind = "des" =>
        /\ last.frag
        /\ Len(is.objs) = Len(is1.objs)
        /\ \A o \in 1..Len(is.objs) : is.objs[o].bit = is1.objs[o].bit /\ Total(is.objs[o].frags) = Total(is1.objs[o].frags)
(* on a store that nobody dirtied beyond a cursor the contract leaves nothing open *)
NoXWithoutForks == (Kind = "ser" /\ Len(ps.objs) = 1) => \A i \in 1..Len(ps.store) : ps.store[i] # X

(* spec -> code *)
InitRec == IF Kind = "ser" THEN [kind |-> "ser", cap |-> ps.objs[1].cap, frags |-> <<>>, steps |-> hist]
           ELSE [kind |-> "des", cap |-> 0, frags |-> is.objs[1].frags, steps |-> hist]
EmitInv == IF Emit /\ n = MaxCalls THEN PrintT(ToJson(InitRec)) ELSE TRUE
=============================================================================
