SPECIFICATION TSpec
CHECK_DEADLOCK FALSE
POSTCONDITION Accepted
CONSTANTS
  CfgIds = {}
  Kinds = {}
  Alphabet = {}
  MaxLen = 0
  Reverify = FALSE
  WithReask = FALSE
