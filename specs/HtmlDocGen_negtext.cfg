SPECIFICATION Spec
CONSTANTS
  EscMode = "none"
  LinkStyle = "fixed"
  MaxTok = 3
  Part = "text"
  ListStyle = "versioned"
  Chains = FALSE
  Configs = {"default"}
  SampleConfigs = {}
INVARIANT TextRefinesP
CHECK_DEADLOCK FALSE
