SPECIFICATION Spec
CONSTANTS
  MaxTypes = 4
  MaxNested = 3
  Langs = {"c", "cpp", "py", "html"}
  Audits = {FALSE}
  OpenSets = {{"model_cache", "pp_carry"}}
  SortedWalk = TRUE
  Vary = {}
INVARIANT Refines
INVARIANT OrderOK
CHECK_DEADLOCK FALSE
