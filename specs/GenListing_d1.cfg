SPECIFICATION Spec
CONSTANTS
  Langs = {"c", "cpp", "py", "html"}
  Exts = {"def"}
  Stems = {"def"}
  SupTpls = {FALSE, TRUE}
  NsVals = {FALSE, TRUE}
  Shapes = {"plain"}
  Wipes = FALSE
  PFiles = {}
  MaxLo = 1
  MaxLi = 0
  MaxDry = 0
  MaxRun = 1
  Linear = FALSE
  QuickOnly = FALSE
  FwdOmitToList = FALSE
  ListDeps = TRUE
  OwnByPrefix = FALSE
  ListUserSup = TRUE
INVARIANT RefinesOutputs
CHECK_DEADLOCK FALSE
