SPECIFICATION Spec
CONSTANTS
  Kind = "des"
  MaxCalls = 2
  Level = 1
  FragMode = "join"
  Bug = "getbyte_off1"
  Emit = FALSE
INVARIANT FragIndep
CHECK_DEADLOCK FALSE
